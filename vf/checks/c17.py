"""C17 - test helpers agree with ground truth and parser (differential monitor)."""

import contextvars
import copy
import random
import unittest

import eliot
from eliot import Action, MemoryLogger, Message, log_message, preserve_context
from eliot.parse import Parser, WrittenAction
from eliot.testing import LoggedAction, LoggedMessage, assertHasAction, assertHasMessage, swap_logger

from vf import gen, oracles
from vf.gen import json_equal
from vf.interp import Interp
from vf.runner import h

ID = "C17"
LEVEL = "exploration"
RULE = ("ProgGen programs over a 3-letter type alphabet (so equal types recur as siblings, ancestors and descendants), with remote "
        "sub-tasks, failed actions and several tasks, are captured by one MemoryLogger installed as default logger. For every type: "
        "LoggedAction.of_type == the ground-truth actions of that type in emission order, each with its own start/end dicts, success "
        "flag and recursively exactly its direct children in emission order; the same tree as the parser's WrittenAction at that "
        "task_level; descendants()/type_tree() == pre-order walk; LoggedMessage.of_type == exactly the messages of the type in order; "
        "assertHasAction/assertHasMessage succeed iff the FIRST entry has the expected outcome and a superset of the expected fields "
        "(expected dicts generated as true subsets, with one wrong / missing pair, and as the fields of a LATER entry of the same type). Some batches run in an interpreter started with -O. non-trivial = a type occurring at >=2 depths or "
        "nested inside itself; distinct by program shape. "
        "Half of the programs also contain hand-offs that are never continued in the captured logger (Action.serialize_task_id whose id "
        "leaves the process or is continued with another ILogger, preserve_context whose callable is never run), so finished actions "
        "have gaps in their children's indices; all of the above must still hold for them (exactly the logged children, the parser's "
        "tree). For dict-valued (also nested, a fifth of the programs generate values two levels deep) start / end / message fields of "
        "the first entry the assert helpers are given an equal copy (must pass) and a strict sub-dict, {} or a copy with a nested dict "
        "emptied (must fail: a field is matched by equality of its value). "
        "Part 'untyped': two fifths of the programs also write messages without an explicit type (Message.log(**f), Message.new(**f).write(), "
        "Message(dict).write(), action.log(\"\", **f), log_message(\"\", **f); a captured log shows them with message_type \"\") at top "
        "level and inside actions, part of their field names and values copied from the start fields of actions of the same program; for "
        "every program the empty type is queried as well: LoggedMessage.of_type(messages, \"\") == exactly the untyped messages in emission "
        "order (never the start or end message of an action, whose dicts have no message_type at all) == the parser's message nodes of "
        "type \"\"; assertHasMessage(test, logger, \"\", fields) succeeds iff the FIRST untyped message has the fields (expectations: its own "
        "fields although an action was started before it, the start fields of an action, plus the variants used for the other types) "
        "and fails when the program wrote no untyped message")
ASSUMPTIONS = ["all actions are finished before the helpers are used (of_type documents ValueError otherwise)"]
BATCH = 30
TYPES = ["t:a", "t:b", "t:c"]


def plan(tier, seed):
    n = 6000 if tier == "quick" else 60000
    specs = [{"seed": seed, "lo": i, "hi": min(n, i + BATCH)} for i in range(0, n, BATCH)]
    # the same in an interpreter started with -O (test suites are run that way too: assert statements vanish, the helpers must not rely on them)
    k = 6 if tier == "quick" else 40
    specs += [{"seed": seed, "lo": 10**6 + i * BATCH, "hi": 10**6 + (i + 1) * BATCH, "interpreter": "optimize"} for i in range(k)]
    return specs


def gt_walk(forest):
    """All ground-truth nodes in emission order with depth."""
    out = []

    def walk(n, d, anc):
        out.append((n, d, anc))
        if n["kind"] == "action":
            for c in n["children"]:
                walk(c, d + 1, anc + [n["type"]])
    for r in forest:
        walk(r, 1, [])
    out.sort(key=lambda x: x[0]["seq"])
    return out


def cmp_logged(gt, la, path, problems):
    if len(problems) > 8:
        return
    if gt["kind"] == "message":
        if not isinstance(la, LoggedMessage):
            problems.append("%s: expected a LoggedMessage, got %s" % (path, type(la).__name__))
            return
        if la.message.get("nid") != gt["nid"] or la.message.get("message_type") != gt["type"]:
            problems.append("%s: LoggedMessage is nid %r type %r, expected nid %r type %r" % (path, la.message.get("nid"), la.message.get("message_type"), gt["nid"], gt["type"]))
        return
    if not isinstance(la, LoggedAction):
        problems.append("%s: expected a LoggedAction, got %s" % (path, type(la).__name__))
        return
    sm, em = la.start_message, la.end_message
    if sm.get("action_type") != gt["type"] or sm.get("action_status") != "started":
        problems.append("%s: start message is %r/%r" % (path, sm.get("action_type"), sm.get("action_status")))
    if "nid" in gt["start"] and sm.get("nid") != gt["nid"]:
        problems.append("%s: start message belongs to nid %r, expected %r" % (path, sm.get("nid"), gt["nid"]))
    if em.get("action_status") != gt["status"] or em.get("action_type") != gt["type"]:
        problems.append("%s: end message is %r/%r, expected %r/%r" % (path, em.get("action_type"), em.get("action_status"), gt["type"], gt["status"]))
    if em.get("task_uuid") != sm.get("task_uuid") or em.get("task_level")[:-1] != sm.get("task_level")[:-1]:
        problems.append("%s: start and end messages belong to different actions" % path)
    if la.succeeded != (gt["status"] == "succeeded"):
        problems.append("%s: succeeded flag %r for status %r" % (path, la.succeeded, gt["status"]))
    for k, v in gt["start"].items():
        if not (k in sm and json_equal(sm[k], v)):
            problems.append("%s: start field %r is %r expected %r" % (path, k, sm.get(k), v))
    if gt["status"] == "succeeded":
        for k, v in gt["end"].items():
            if not (k in em and json_equal(em[k], v)):
                problems.append("%s: end field %r is %r expected %r" % (path, k, em.get(k), v))
    if len(la.children) != len(gt["children"]):
        problems.append("%s: %d children, expected %d" % (path, len(la.children), len(gt["children"])))
        return
    # children in emission order (a remote child continued later is emitted after its siblings)
    for i, (g, c) in enumerate(zip(sorted(gt["children"], key=lambda n: n["seq"]), la.children)):
        cmp_logged(g, c, "%s/%d" % (path, i), problems)


def logged_to_norm(la):
    if isinstance(la, LoggedMessage):
        m = la.message
        return ("m", tuple(m["task_level"]), m.get("message_type"), m.get("nid"))
    # the parser orders children by task_level; emission order differs only for remote children continued later
    return ("a", tuple(la.start_message["task_level"][:-1]), la.start_message.get("action_type"), la.end_message.get("action_status"),
            tuple(la.end_message["task_level"]), tuple(sorted((logged_to_norm(c) for c in la.children), key=lambda n: n[1])))


def written_to_norm(w):
    if isinstance(w, WrittenAction):
        return ("a", tuple(w.task_level.as_list()), w.action_type, w.status, tuple(w.end_message.task_level.as_list()),
                tuple(written_to_norm(c) for c in w.children))
    return ("m", tuple(w.task_level.as_list()), w.contents.get("message_type"), w.contents.get("nid"))


def find_written(root, level):
    node = root
    if not isinstance(node, WrittenAction):
        return None
    cur = []
    for k in level:
        cur.append(k)
        nxt = None
        for c in node.children:
            if isinstance(c, WrittenAction) and c.task_level.as_list() == cur:
                nxt = c
        if nxt is None:
            return None
        node = nxt
    return node


RESERVE_KINDS = ["serialize_task_id", "serialize_task_id", "preserve_context", "continued_elsewhere"]


def add_reservations(prog, rng, next_nid, p):
    """Insert hand-offs that are never continued in the captured logger at random positions of action bodies: the action
    serializes its task id (the id leaves the process), wraps a callable with preserve_context that is never run, or the id is
    continued with another ILogger. Each reserves one child position that stays empty in the captured log."""
    count = [0]

    def walk(nodes, inside):
        for n in list(nodes):
            if n["k"] in ("act", "remote"):
                walk(n["children"], True)
        if inside:
            k = 0
            while k < 3 and rng.random() < p:
                k += 1
                count[0] += 1
                nodes.insert(rng.randint(0, len(nodes)), {"k": "remote", "nid": next_nid + count[0], "api": "reserve-only",
                                                          "drop": rng.choice(RESERVE_KINDS), "outcome": "ok", "children": []})
    walk(prog, False)
    return count[0]


ENABLE_UNTYPED = True
# ways of writing a message without naming a type; each leaves message_type == "" in a captured MemoryLogger
UNTYPED_STYLES = ["untyped:Message.log", "untyped:Message.new.write", "untyped:Message(dict).write", "untyped:action.log('')", "untyped:log_message('')"]


def add_untyped(prog, rng, next_nid, value_depth):
    """Insert messages written without an explicit type at random positions (top level: a task of its own; inside action and
    remote bodies). Part of their fields reuse names - and sometimes values - of start fields of the program's actions, so that an
    expectation about such a field can tell the message from an action's start message."""
    acts = []

    def collect(nodes):
        for n in nodes:
            if n["k"] in ("act", "remote"):
                if n["k"] == "act" and n.get("start"):
                    acts.append(n)
                collect(n["children"])
    collect(prog)
    fg = gen.ProgGen(rng, value_depth=value_depth)
    count = [0]

    def make():
        count[0] += 1
        f = fg.fields()
        if acts and rng.random() < 0.6:
            for k, v in rng.choice(acts)["start"].items():
                if k in gen.RESERVED or k.startswith("_"):
                    continue
                f[k] = copy.deepcopy(v) if rng.random() < 0.3 else gen.gen_value(rng, value_depth)
        return {"k": "msg", "nid": next_nid + count[0], "style": rng.choice(UNTYPED_STYLES), "type": "", "fields": f, "untyped": True}

    def walk(nodes, p):
        for n in list(nodes):
            if n["k"] in ("act", "remote") and n.get("api") != "reserve-only":
                walk(n["children"], 0.35)
        k = 0
        while k < 3 and rng.random() < p:
            k += 1
            nodes.insert(rng.randint(0, len(nodes)), make())
    walk(prog, 0.5)
    if count[0] == 0:
        prog.insert(rng.randint(0, len(prog)), make())
    return count[0]


class _Interp(Interp):
    """Interp that also executes the reserve-only hand-offs (no ground-truth node: nothing is logged for them here) and the
    messages written without an explicit type."""

    def __init__(self):
        Interp.__init__(self)
        self.elsewhere = MemoryLogger()  # stands for the other process / the production logger the id travelled to
        self.gap_lists = {}  # id(ground-truth children list of the reserving action) -> number of positions left empty
        self.untyped_calls = {}

    def _exec_msg(self, node, gt_children, cur, style, t, fields, decl):
        if not node.get("untyped"):
            return Interp._exec_msg(self, node, gt_children, cur, style, t, fields, decl)
        if style == "untyped:action.log('')" and cur is None:
            style = "untyped:log_message('')"
        self.untyped_calls[style] = self.untyped_calls.get(style, 0) + 1
        if style == "untyped:Message.log":
            self.api("Message.log", Message.log, **fields)
        elif style == "untyped:Message.new.write":
            ok, m = self.api("Message.new", Message.new, **fields)
            if ok:
                self.api("Message.write", m.write)
        elif style == "untyped:Message(dict).write":
            ok, m = self.api("Message", Message, dict(fields))
            if ok:
                self.api("Message.write", m.write)
        elif style == "untyped:action.log('')":
            self.api("Action.log", cur.log, "", **fields)
        elif style == "untyped:log_message('')":
            self.api("log_message", log_message, "", **fields)
        else:
            raise AssertionError(style)
        gt = {"kind": "message", "type": "", "fields": self._expect(fields, None), "nid": node["nid"]}
        self._attach(None if cur is None else gt_children, gt)

    def exec_remote(self, node, gt_children, cur):
        how = node.get("drop")
        if how is None:
            return Interp.exec_remote(self, node, gt_children, cur)
        if cur is None or gt_children is None:
            return
        self.count("reserve-only:" + how)
        if how == "preserve_context":
            ok, g = self.api("preserve_context", preserve_context, lambda: None)
            if ok:
                self.__dict__.setdefault("_never_called", []).append(g)
        else:
            ok, tid = self.api("serialize_task_id", cur.serialize_task_id)
            if ok and how == "continued_elsewhere":
                def far_side():
                    with Action.continue_task(self.elsewhere, tid) as a:
                        a.log(message_type="t:a:m", nid=-7)
                self.api("continue_task(another logger)", contextvars.Context().run, far_side)
        if ok:
            self.gap_lists[id(gt_children)] = self.gap_lists.get(id(gt_children), 0) + 1


def has_gap(gt, gap_lists):
    """Did this action or one of its descendant actions leave a reserved child position empty?"""
    if gt["kind"] != "action":
        return False
    return id(gt["children"]) in gap_lists or any(has_gap(c, gap_lists) for c in gt["children"])


def shrinkable(v):
    """Paths (through dicts and lists) to the non-empty dicts inside a value."""
    out = []

    def walk(x, path):
        if isinstance(x, dict):
            if x:
                out.append(path)
            for k in x:
                walk(x[k], path + (k,))
        elif isinstance(x, list):
            for i, y in enumerate(x):
                walk(y, path + (i,))
    walk(v, ())
    return out


def shrink(v, rng):
    """A copy of v in which one dict (v itself or a nested one) lacks one of its keys: a strict sub-dict, not equal to v."""
    path = rng.choice(shrinkable(v))
    w = copy.deepcopy(v)
    d = w
    for k in path:
        d = d[k]
    del d[rng.choice(sorted(d, key=repr))]
    return w


def dict_variants(fields, rng):
    """For one dict-valued field: (label, replacement value, must the helper accept it)."""
    keys = [k for k in sorted(fields, key=repr) if isinstance(fields[k], dict) and fields[k] and fields[k] != {"__anytext__": True}]
    if not keys:
        return None, []
    k = rng.choice(keys)
    v = fields[k]
    out = [("equal-dict-copy", copy.deepcopy(v), True), ("strict-sub-dict", shrink(v, rng), False), ("empty-dict-for-non-empty", {}, False)]
    nested = [p for p in shrinkable(v) if p]
    if nested:
        path = rng.choice(nested)
        w = copy.deepcopy(v)
        d = w
        for q in path[:-1]:
            d = d[q]
        d[path[-1]] = {}
        out.append(("nested-dict-emptied", w, False))
    return k, out


class _TC(unittest.TestCase):
    def runTest(self):
        pass


def clearly_lacks(fields, k, v):
    """The logged fields do not contain the pair (k, v), under the strict and under Python's notion of equality alike."""
    return k not in fields or not (json_equal(fields[k], v) or fields[k] == v)


def check_untyped(logger, nodes, tasks, tc, rng, res, problems):
    """The empty message type: what a captured log shows for every message written without an explicit type. The start and end
    messages of actions have no message_type at all; they are not messages of type ""."""
    messages = logger.messages
    c = res["counters"]
    want = [n for n, _, _ in nodes if n["kind"] == "message" and n["type"] == ""]
    actions = [n for n, _, _ in nodes if n["kind"] == "action"]
    typed = [n for n, _, _ in nodes if n["kind"] == "message" and n["type"] != ""]
    c["empty_type_queries"] = c.get("empty_type_queries", 0) + 1
    mixed = bool(want and actions)
    if mixed:
        c["empty_type_queries_on_logs_mixing_untyped_messages_and_actions"] = c.get("empty_type_queries_on_logs_mixing_untyped_messages_and_actions", 0) + 1
        if typed:
            c["empty_type_queries_on_logs_with_typed_messages_too"] = c.get("empty_type_queries_on_logs_with_typed_messages_too", 0) + 1

    def describe(m):
        if "action_type" in m:
            return "the %s message of action %r (nid %r), which has no message_type" % (m.get("action_status"), m.get("action_type"), m.get("nid"))
        return "message nid %r of type %r" % (m.get("nid"), m.get("message_type"))
    try:
        got = LoggedMessage.of_type(messages, "")
    except BaseException as e:
        problems.append('LoggedMessage.of_type(messages, "") raised %r' % (e,))
        return
    got_dicts = [lm.message for lm in got]
    if [(m.get("nid"), m.get("message_type")) for m in got_dicts] != [(n["nid"], "") for n in want]:
        intruders = [m for m in got_dicts if "action_type" in m]
        problems.append('LoggedMessage.of_type(messages, "") returned %d entries, the program wrote %d messages without a type (nids %s)%s' % (
            len(got), len(want), [n["nid"] for n in want][:8],
            "; %d of the entries are start/end messages of actions, the first: %s" % (len(intruders), describe(intruders[0])) if intruders else
            "; returned nids %s" % ([m.get("nid") for m in got_dicts][:8],)))
    # the parser's message nodes (never an action's start / end message) of type "", in emission order
    if tasks:
        where = {}
        for idx, m in enumerate(messages):
            where.setdefault((m["task_uuid"], tuple(m["task_level"])), idx)
        pm = []

        def walk(x):
            if isinstance(x, WrittenAction):
                for ch in x.children:
                    walk(ch)
            elif x.contents.get("message_type") == "":
                pm.append((where.get((x.task_uuid, tuple(x.task_level.as_list())), -1), x.task_uuid, tuple(x.task_level.as_list()), x.contents.get("nid")))
        for t in tasks.values():
            walk(t.root())
        pm.sort()
        if [(m["task_uuid"], tuple(m["task_level"]), m.get("nid")) for m in got_dicts] != [x[1:] for x in pm]:
            problems.append('LoggedMessage.of_type(messages, "") has %d entries, the parser built %d message nodes of type "" from the same log '
                            '(helper levels %s, parser levels %s)' % (len(got), len(pm), [m["task_level"] for m in got_dicts][:6], [list(x[2]) for x in pm][:6]))
    if not want:
        # no message without a type was written: nothing is "the first message of type ''", whatever actions the log holds
        for label, f_ in (("no fields", None), ("start fields of the first action", dict(actions[0]["start"]) if actions else {})):
            try:
                r = assertHasMessage(tc, logger, "", f_)
            except AssertionError:
                continue
            except BaseException as e:
                problems.append('assertHasMessage(test, logger, "", %s) raised %r' % (label, e))
                continue
            finally:
                c["assert_helper_calls"] = c.get("assert_helper_calls", 0) + 1
            problems.append('assertHasMessage(test, logger, "", %s) passed although the program wrote no message without a type; it returned %s' % (
                label, describe(r.message) if isinstance(r, LoggedMessage) else repr(r)))
        return
    first = want[0]
    ff = first["fields"]
    idx_first = next((j for j, m in enumerate(messages) if m.get("message_type") == "" and m.get("nid") == first["nid"]), None)
    starts_before = [m for m in messages[:idx_first or 0] if m.get("action_status") == "started" and "action_type" in m]
    sub = {k: v for k, v in ff.items() if rng.random() < 0.6}
    variants = [("a true subset of its fields", sub, True), ("no fields", None, True), ("its own fields and nid", dict(sub, nid=first["nid"]), True),
                ("all of its fields", dict(ff), True), ("a wrong nid", dict(sub, nid=-1), False),
                ("a key it lacks", dict(sub, no_such_key=0), False), ("a key it lacks, value None", dict(sub, no_such_key=None), False)]
    if starts_before:
        # an action was started (its start message is in the log) before the first untyped message: that start message is not a
        # message of type "", so it neither rescues nor spoils the assertion
        c["untyped_expectations_with_an_action_started_before_the_first_untyped_message"] = c.get("untyped_expectations_with_an_action_started_before_the_first_untyped_message", 0) + 1
        for k in sorted(ff, key=repr):
            if all(clearly_lacks(m, k, ff[k]) for m in starts_before):
                variants.append(("field %r, which no earlier start message of an action has with that value" % (k,), {k: ff[k]}, True))
                break
    # expectations that only the start message of an action satisfies
    cands = [a for a in actions if a["start"] and any(clearly_lacks(ff, k, v) for k, v in a["start"].items())]
    picks = []
    if cands:
        picks.append(("the first such action", cands[0]))
        if len(cands) > 1:
            picks.append(("another action", rng.choice(cands[1:])))
    for which, a in picks:
        bad = [k for k, v in sorted(a["start"].items(), key=repr) if clearly_lacks(ff, k, v)]
        e1 = {k: v for k, v in a["start"].items() if rng.random() < 0.5}
        kk = rng.choice(bad)
        e1[kk] = a["start"][kk]
        variants.append(("start fields %s of %s (type %r, nid %r), which the first untyped message lacks" % (sorted(e1, key=repr), which, a["type"], a["nid"]), e1, False))
        variants.append(("all start fields of %s (type %r, nid %r), which the first untyped message lacks" % (which, a["type"], a["nid"]), dict(a["start"]), False))
        c["untyped_expectations_only_an_action_start_message_satisfies"] = c.get("untyped_expectations_only_an_action_start_message_satisfies", 0) + 2
    if len(want) >= 2:
        variants.append(("the nid of a later untyped message", {"nid": want[-1]["nid"]}, False))
        variants.append(("all fields of the second untyped message", dict(want[1]["fields"]), json_equal(want[1]["fields"], ff)))
    dk, dvs = dict_variants(ff, rng)
    for dlabel, dv, dok in dvs:
        variants.append(("field %r as %s" % (dk, dlabel), {**sub, dk: dv}, dok))
    for label, f_, expect_ok in variants:
        try:
            r = assertHasMessage(tc, logger, "", f_)
            passed = True
        except AssertionError:
            passed = False
        except BaseException as e:
            problems.append('assertHasMessage(test, logger, "", %s) raised %r' % (label, e))
            continue
        c["assert_helper_calls"] = c.get("assert_helper_calls", 0) + 1
        if passed != expect_ok:
            problems.append('assertHasMessage(test, logger, "", expecting %s) %s, but the first message written without a type (nid %r, fields %s) %s that expectation%s' % (
                label, "passed" if passed else "failed", first["nid"], sorted(ff, key=repr), "meets" if expect_ok else "does not meet",
                "; it returned %s" % describe(r.message) if passed and isinstance(r, LoggedMessage) else ""))
        elif passed and not (isinstance(r, LoggedMessage) and r.message.get("nid") == first["nid"] and r.message.get("message_type") == ""):
            problems.append('assertHasMessage(test, logger, "", expecting %s) returned %s instead of the first message written without a type (nid %r)' % (
                label, describe(r.message) if isinstance(r, LoggedMessage) else repr(r), first["nid"]))


def one(seed, i, res):
    rng = random.Random("%s:C17:%d" % (seed, i))
    rng2 = random.Random("%s:C17:widen:%d" % (seed, i))  # choices added later draw from a stream of their own
    g = gen.ProgGen(rng, max_depth=rng.choice([3, 4, 6]), max_nodes=rng.choice([10, 25, 50]), value_depth=2 if rng2.random() < 0.2 else 1, type_names=TYPES,
                    allow_typed=False, allow_tb=False, act_styles=["with", "ctx_finish", "run_finish", "log_call", "start_task"],
                    msg_styles=["log_message", "action.log", "Message.log", "Message.new.write"], fail_p=0.3, defer_p=0.4)
    prog = g.program()
    if rng2.random() < 0.5:
        # hand-offs whose reserved child position is never filled in this logger (sibling indices with gaps)
        add_reservations(prog, rng2, g.nid + 1000, rng2.choice([0.15, 0.4]))
    rng3 = random.Random("%s:C17:untyped:%d" % (seed, i))  # part 'untyped' draws from a stream of its own as well
    if ENABLE_UNTYPED and rng3.random() < 0.4:
        add_untyped(prog, rng3, g.nid + 5000, g.value_depth)
    logger = MemoryLogger()
    prev = swap_logger(logger)
    it = _Interp()
    it.allow_defer = True
    try:
        forest = it.run(prog)
    finally:
        swap_logger(prev)
    messages = logger.messages
    problems = [v["msg"] for v in it.violations if v["msg"].startswith("eliot API")]
    nodes = gt_walk(forest)
    try:
        tasks = {t.root().task_uuid: t for t in Parser.parse_stream(messages)}
    except BaseException as e:
        problems.append("parser raised %r" % (e,))
        tasks = {}
    tc = _TC()
    multi_depth = False
    all_types = TYPES + ["eliot:remote_task", "t:a:m", "nope"]
    for T in all_types:
        want = [(n, d, anc) for n, d, anc in nodes if n["kind"] == "action" and n["type"] == T]
        if len(set(d for _, d, _ in want)) >= 2 or any(T in anc for _, _, anc in want):
            multi_depth = True
        try:
            got = LoggedAction.of_type(messages, T if rng.random() < 0.5 else eliot.ActionType(T, [], [], ""))
        except BaseException as e:
            problems.append("LoggedAction.of_type(%r) raised %r" % (T, e))
            continue
        if len(got) != len(want):
            problems.append("LoggedAction.of_type(%r) returned %d actions, %d were executed (depths %s)" % (T, len(got), len(want), sorted(d for _, d, _ in want)))
            continue
        for j, ((n, d, anc), la) in enumerate(zip(want, got)):
            cmp_logged(n, la, "%s[%d]" % (T, j), problems)
            if has_gap(n, it.gap_lists):
                res["counters"]["logged_actions_with_unfilled_reserved_position"] = res["counters"].get("logged_actions_with_unfilled_reserved_position", 0) + 1
            # same tree as the parser
            t = tasks.get(la.start_message["task_uuid"])
            w = find_written(t.root(), la.start_message["task_level"][:-1]) if t else None
            if w is None:
                problems.append("parser has no action at %s" % (la.start_message["task_level"][:-1],))
            elif written_to_norm(w) != logged_to_norm(la):
                problems.append("%s[%d]: LoggedAction tree differs from the parser's tree at level %s" % (T, j, la.start_message["task_level"][:-1]))
            # descendants / type_tree = pre-order walk of the ground truth
            pre = []

            def walk(x):
                for ch in sorted(x["children"], key=lambda n: n["seq"]):
                    pre.append(ch)
                    if ch["kind"] == "action":
                        walk(ch)
            walk(n)
            desc = list(la.descendants())
            if len(desc) != len(pre):
                problems.append("%s[%d]: descendants() yields %d items, ground truth has %d" % (T, j, len(desc), len(pre)))
            else:
                for gnode, dnode in zip(pre, desc):
                    if gnode["kind"] == "message":
                        ok = isinstance(dnode, LoggedMessage) and dnode.message.get("nid") == gnode["nid"]
                    else:
                        ok = isinstance(dnode, LoggedAction) and dnode.start_message.get("action_type") == gnode["type"] and \
                            ("nid" not in gnode["start"] or dnode.start_message.get("nid") == gnode["nid"])
                    if not ok:
                        problems.append("%s[%d]: descendants() order differs from pre-order walk" % (T, j))
                        break

            def tt(x):
                return {x["type"]: [tt(ch) if ch["kind"] == "action" else ch["type"] for ch in sorted(x["children"], key=lambda n: n["seq"])]}
            if la.type_tree() != tt(n):
                problems.append("%s[%d]: type_tree() %r != %r" % (T, j, la.type_tree(), tt(n)))
        # assertHasAction on the first entry
        if want:
            first = want[0][0]
            ok_succeeded = first["status"] == "succeeded"
            sf = {k: v for k, v in first["start"].items() if rng.random() < 0.6}
            ef = {k: v for k, v in (first["end"] or {}).items() if rng.random() < 0.6 and v != {"__anytext__": True}}
            variants = [("true-subset", ok_succeeded, sf, ef, True), ("wrong-outcome", not ok_succeeded, sf, ef, False),
                        ("wrong-start-value", ok_succeeded, dict(sf, nid=-5), ef, False),
                        ("missing-end-key", ok_succeeded, sf, dict(ef, no_such_key=1), False),
                        ("missing-end-key-none", ok_succeeded, sf, dict(ef, no_such_key=None), False),
                        ("missing-start-key-none", ok_succeeded, dict(sf, no_such_key=None), ef, False),
                        # the expected outcome given as 1 / 0 (a 0/1 column of a test table, an int flag expression): equal to True / False
                        ("true-subset-outcome-as-int", int(ok_succeeded), sf, ef, True), ("wrong-outcome-as-int", int(not ok_succeeded), sf, ef, False)]
            # a later action of the same type that would satisfy the wrong expectation must not rescue the assertion
            if len(want) >= 2 and "nid" in want[-1][0]["start"]:
                later = want[-1][0]
                variants.append(("start-fields-of-a-later-entry", ok_succeeded, {"nid": later["nid"]}, {}, False))
                variants.append(("start-fields-and-outcome-of-a-later-entry", later["status"] == "succeeded", {"nid": later["nid"]}, {}, False))
            # a dict-valued field is a field like any other: the expectation must equal what was logged, a sub-dict does not
            for side, logged_fields in (("start", first["start"]), ("end", first["end"] or {})):
                dk, dvs = dict_variants(logged_fields, rng2)
                for dlabel, dv, dok in dvs:
                    variants.append(("%s-field-%s" % (side, dlabel), ok_succeeded, {**sf, dk: dv} if side == "start" else sf,
                                     {**ef, dk: dv} if side == "end" else ef, dok))
                    res["counters"]["dict_valued_field_expectations"] = res["counters"].get("dict_valued_field_expectations", 0) + 1
            for label, succ, s_, e_, expect_ok in variants:
                try:
                    r = assertHasAction(tc, logger, T if rng.random() < 0.5 else eliot.ActionType(T, [], [], ""), succ, s_, e_)
                    passed = True
                except AssertionError:
                    passed = False
                except BaseException as e:
                    problems.append("assertHasAction raised %r" % (e,))
                    continue
                if passed != expect_ok:
                    problems.append("assertHasAction(%r, %s) %s but the first %r action %s the expectation" % (
                        T, label, "passed" if passed else "failed", T, "meets" if expect_ok else "does not meet"))
                if passed and not (isinstance(r, LoggedAction) and ("nid" not in first["start"] or r.start_message.get("nid") == first["nid"])):
                    problems.append("assertHasAction returned an action other than the first of its type")
                res["counters"]["assert_helper_calls"] = res["counters"].get("assert_helper_calls", 0) + 1
        else:
            try:
                assertHasAction(tc, logger, T, True)
                problems.append("assertHasAction passed for a type that never occurred")
            except AssertionError:
                pass
    # messages
    mtypes = sorted(set(n["type"] for n, _, _ in nodes if n["kind"] == "message" and n["type"] != "")) + ["nope:m"]  # "": check_untyped
    for T in mtypes:
        want = [n for n, _, _ in nodes if n["kind"] == "message" and n["type"] == T]
        got = LoggedMessage.of_type(messages, T if rng.random() < 0.5 else eliot.MessageType(T, [], ""))
        if [m.message.get("nid") for m in got] != [n["nid"] for n in want]:
            problems.append("LoggedMessage.of_type(%r) returned nids %s, executed %s" % (T, [m.message.get("nid") for m in got][:8], [n["nid"] for n in want][:8]))
        if want:
            first = want[0]
            sub = {k: v for k, v in first["fields"].items() if rng.random() < 0.6}
            mvariants = [("true-subset", sub, True), ("none", None, True), ("wrong-value", dict(sub, nid=-1), False),
                         ("missing-key", dict(sub, no_such_key=0), False), ("missing-key-none", dict(sub, no_such_key=None), False)]
            if len(want) >= 2:
                # fields that only a later message of the type has must not satisfy the assertion about the first one
                mvariants.append(("fields-of-a-later-entry", {"nid": want[-1]["nid"]}, False))
                mvariants.append(("all-fields-of-a-later-entry", dict(want[1]["fields"]), json_equal(want[1]["fields"], first["fields"])))
            dk, dvs = dict_variants(first["fields"], rng2)
            for dlabel, dv, dok in dvs:
                mvariants.append(("field-" + dlabel, {**sub, dk: dv}, dok))
                res["counters"]["dict_valued_field_expectations"] = res["counters"].get("dict_valued_field_expectations", 0) + 1
            for label, f_, expect_ok in mvariants:
                try:
                    r = assertHasMessage(tc, logger, T if rng.random() < 0.5 else eliot.MessageType(T, [], ""), f_)
                    passed = True
                except AssertionError:
                    passed = False
                if passed != expect_ok:
                    problems.append("assertHasMessage(%r, %s) %s unexpectedly" % (T, label, "passed" if passed else "failed"))
                if passed and r.message.get("nid") != first["nid"]:
                    problems.append("assertHasMessage returned a message other than the first of its type")
                res["counters"]["assert_helper_calls"] = res["counters"].get("assert_helper_calls", 0) + 1
        else:
            try:
                assertHasMessage(tc, logger, T)
                problems.append("assertHasMessage passed for a type that never occurred")
            except AssertionError:
                pass
    if ENABLE_UNTYPED:
        check_untyped(logger, nodes, tasks, tc, rng3, res, problems)
        for k, v in it.untyped_calls.items():
            d = res["counters"].setdefault("untyped_message_calls", {})
            d[k] = d.get(k, 0) + v
    # values that are not equal to themselves (NaN): the logger holds the very object that was logged, so the first entry does
    # contain the expected field; a different number does not match
    nan_logger = MemoryLogger()
    NAN = float("nan")
    with eliot.start_action(nan_logger, "t:nanact", ratio=NAN) as na:
        na.log(message_type="t:nanmsg", ratio=NAN, n=1)
        na.add_success_fields(loss=NAN)
    for label, call, expect_ok in (
            ("message field NaN", lambda: assertHasMessage(tc, nan_logger, "t:nanmsg", {"ratio": NAN}), True),
            ("message field 1.0", lambda: assertHasMessage(tc, nan_logger, "t:nanmsg", {"ratio": 1.0}), False),
            ("action fields NaN", lambda: assertHasAction(tc, nan_logger, "t:nanact", True, {"ratio": NAN}, {"loss": NAN}), True),
            ("action end field 0.5", lambda: assertHasAction(tc, nan_logger, "t:nanact", True, {"ratio": NAN}, {"loss": 0.5}), False)):
        try:
            call()
            passed = True
        except AssertionError:
            passed = False
        except BaseException as e:
            problems.append("assert helper raised %r for %s" % (e, label))
            continue
        if passed != expect_ok:
            problems.append("assert helper %s for an expectation with %s" % ("passed" if passed else "failed", label))
        res["counters"]["assert_helper_calls"] = res["counters"].get("assert_helper_calls", 0) + 1
    res["evals"] += 1
    c = res["counters"]
    c["logged_actions_compared"] = c.get("logged_actions_compared", 0) + sum(1 for n, _, _ in nodes if n["kind"] == "action")
    c["messages_captured"] = c.get("messages_captured", 0) + len(messages)
    if multi_depth:
        res["nontrivial"].append(h(gen.prog_shape(prog)))
    if res.get("sample") is None and 4 <= len(nodes) <= 8 and multi_depth:
        res["sample"] = {"program": prog, "levels": [(m["task_level"], m.get("action_type") or m.get("message_type")) for m in messages]}
    if problems:
        res["violations"].append({"msg": problems[0], "mech": None, "detail": {"case": i, "problems": problems[:8], "program": prog}})


def run_case(spec):
    res = {"evals": 0, "nontrivial": [], "counters": {}, "violations": [], "sample": None}
    if spec.get("interpreter") == "optimize":
        import sys
        if not sys.flags.optimize:
            return {"inconclusive": "the -O case was not started in an optimizing interpreter"}
        res["counters"]["programs_checked_under_python_O"] = spec["hi"] - spec["lo"]
    for i in range(spec["lo"], spec["hi"]):
        one(spec["seed"], i, res)
    return res


def finalize(agg, tier):
    if agg["counters"].get("logged_actions_compared", 0) < 2000:
        return "fewer than 2000 logged actions compared"
    if agg["counters"].get("logged_actions_with_unfilled_reserved_position", 0) == 0:
        return "no compared action had a reserved child position that was never continued in the captured logger"
    if agg["counters"].get("dict_valued_field_expectations", 0) == 0:
        return "no assert-helper expectation about a dict-valued field was generated"
    if ENABLE_UNTYPED:
        for k, why in (("empty_type_queries_on_logs_mixing_untyped_messages_and_actions", "no log mixing messages written without a type and actions was queried for the empty message type"),
                       ("empty_type_queries_on_logs_with_typed_messages_too", "no log with untyped messages, actions and typed messages was queried for the empty message type"),
                       ("untyped_expectations_with_an_action_started_before_the_first_untyped_message", "no assertHasMessage expectation about an untyped message that follows an action's start message was generated"),
                       ("untyped_expectations_only_an_action_start_message_satisfies", "no assertHasMessage expectation for the empty type that only an action's start message satisfies was generated")):
            if agg["counters"].get(k, 0) == 0:
                return why
        calls = agg["counters"].get("untyped_message_calls", {})
        for st in UNTYPED_STYLES:
            if calls.get(st, 0) == 0:
                return "no message was written with %s" % st
    return None
