"""C18 - log_call transparency (differential monitor decorated vs undecorated)."""

import inspect
import random

from eliot import add_destinations, log_call, remove_destination

from vf import excs
from vf.runner import h
from vf.tape import Recorder, Tape

ID = "C18"
LEVEL = "exploration"
RULE = ("generated signatures (positional-only, positional-or-keyword, *args, keyword-only, **kwargs; defaults incl. mutable ones; names "
        "drawn from ordinary identifiers and from eliot's own keywords/reserved keys: logger, action_type, _serializers, fields, self, "
        "task_uuid, task_level, timestamp, action_status, message_type, exception, reason, result, ...) as plain functions, methods, "
        "static and class methods x valid and invalid argument lists x decorator options (bare, action_type, include_args, "
        "include_result=False). Oracle: same outcome kind as the undecorated call (TypeError for rejected argument lists on both sides, "
        "body not run), the returned / raised object IS the body's object, exactly one action, start fields == "
        "inspect.signature(f).bind(...) with defaults minus self restricted to include_args, result on the successful end unless "
        "include_result=False, default action_type module.qualname, __name__/__doc__/signature preserved. Options are also passed positionally; bodies may return while an action they entered through a plain generator is still current; a fifth of "
        "the calls happen while the caller handles another exception; include_args may name self. One call in five is made inside an action started with a logger object of its own: the "
        "call's action still reaches the registered destinations. non-trivial = signature with a "
        "special name, a non-plain parameter kind or an invalid argument list; distinct by (signature, options, argument-list shape). "
        "Part 'layers' (one case in forty): a plain function under a stack of 1-4 decorations, each either log_call with options of its own "
        "or an ordinary functools.wraps decorator (retry on the body's error / pass-through timing) whose entries and exits the harness "
        "records; every log_call decoration - also one applied to a log_call-decorated function or to a plain wrapper around one - must "
        "log its own action (own action_type / include_args over the parameters of the callable it was given / include_result) around "
        "each entry of what it decorates, nested in decoration order, and the outcome object must pass through unchanged. Between "
        "decorating and calling, the default logger may be replaced (eliot.testing.swap_logger with a MemoryLogger or a minimal "
        "ILogger, or a unittest method under @capture_logging, optionally inside a start_action of the test): the call's actions must "
        "arrive, complete and in order, at the default logger in force when the call is made and nowhere else. "
        "Part 'startup': multi-step histories, each in a pristine forked process that has never added a destination and whose default "
        "logger is the real eliot.Logger: 1-5 calls of 1-3 log_call-decorated functions / methods (returning, raising, calling other "
        "decorated functions whose errors they catch or let through, logging messages and starting actions in their bodies, optionally "
        "inside a start_action of the application), then the first add_destinations (between two calls, or made by the body of a "
        "decorated call such as a logged main() that sets up logging), then 0-3 more calls. Everything logged before that first "
        "add_destinations reaches its destinations afterwards (eliot buffers start-up messages), so every call - before, across or "
        "after it - must show exactly one action with the start fields and result / exception demanded above, what its body logged "
        "must be children of that action, and results / exception objects must be those of the undecorated function" " Body plans also include methods that return the object they were called on (the end message's result is that object) and bodies that record success fields of their own on the action of their call, one of them named result (the logged result is the return value; with include_result=False the body's own field stays).")
ASSUMPTIONS = ["argument values are JSON-native so that tape copies compare by equality"]
BATCH = 250
ENABLE_STARTUP = True  # part 'startup' (decorated calls before the first add_destinations of a process)

ORDINARY = ["a", "b", "c", "x", "y", "key", "value", "n", "m", "p", "q2", "item"]
SPECIAL = ["logger", "action_type", "_serializers", "fields", "self", "task_uuid", "task_level", "timestamp", "action_status",
           "message_type", "exception", "reason", "result", "args", "kwargs", "wrapped_function", "include_args", "include_result",
           "ctx", "callargs", "_call", "cls", "f", "exc", "serializers", "_func", "func"]
STARTACTION_KW = {"logger", "action_type", "_serializers"}
RESERVED_KEYS = {"task_uuid", "task_level", "timestamp", "action_status", "action_type"}
META = ("task_uuid", "task_level", "timestamp", "action_type", "action_status")


def plan(tier, seed):
    n = 40000 if tier == "quick" else 400000
    specs = [{"seed": seed, "lo": i, "hi": min(n, i + BATCH)} for i in range(0, n, BATCH)]
    if ENABLE_STARTUP:
        ns = 1200 if tier == "quick" else 12000
        specs += [{"part": "startup", "seed": seed, "lo": i, "hi": min(ns, i + 40)} for i in range(0, ns, 40)]
    return specs


def gen_default(rng):
    return rng.choice(["1", "'d'", "None", "2.5", "True", "[]", "{}", "[1, 2]", "(1, 2)"])


def gen_signature(rng):
    p_special = rng.choice([0.0, 0.3, 0.7])
    pool_o = list(ORDINARY)
    pool_s = list(SPECIAL)
    rng.shuffle(pool_o)
    rng.shuffle(pool_s)

    def name():
        if pool_s and rng.random() < p_special:
            return pool_s.pop()
        return pool_o.pop()
    sig = {"posonly": [], "pos": [], "varargs": None, "kwonly": [], "varkw": None}
    npo = rng.choice([0, 0, 0, 1, 2])
    npk = rng.choice([0, 1, 2, 3])
    nko = rng.choice([0, 0, 1, 2])
    defaults_started = False
    for _ in range(npo):
        d = None
        if defaults_started or rng.random() < 0.25:
            d = gen_default(rng)
            defaults_started = True
        sig["posonly"].append((name(), d))
    for _ in range(npk):
        d = None
        if defaults_started or rng.random() < 0.3:
            d = gen_default(rng)
            defaults_started = True
        sig["pos"].append((name(), d))
    if rng.random() < 0.3:
        sig["varargs"] = name()
    for _ in range(nko):
        sig["kwonly"].append((name(), gen_default(rng) if rng.random() < 0.5 else None))
    if rng.random() < 0.3:
        sig["varkw"] = name()
    return sig


def render_params(sig, first=None):
    parts = []
    if first:
        parts.append(first)
    for n, d in sig["posonly"]:
        parts.append(n if d is None else "%s=%s" % (n, d))
    if sig["posonly"]:
        parts.append("/")
    for n, d in sig["pos"]:
        parts.append(n if d is None else "%s=%s" % (n, d))
    if sig["varargs"]:
        parts.append("*" + sig["varargs"])
    elif sig["kwonly"]:
        parts.append("*")
    for n, d in sig["kwonly"]:
        parts.append(n if d is None else "%s=%s" % (n, d))
    if sig["varkw"]:
        parts.append("**" + sig["varkw"])
    return ", ".join(parts)


def all_names(sig):
    out = [n for n, _ in sig["posonly"]] + [n for n, _ in sig["pos"]]
    if sig["varargs"]:
        out.append(sig["varargs"])
    out += [n for n, _ in sig["kwonly"]]
    if sig["varkw"]:
        out.append(sig["varkw"])
    return out


def gen_args(rng, sig, valid):
    val = lambda: rng.choice([0, 1, 7, "s", "t", [1], {"k": 1}, None, 2.5])
    args = []
    kwargs = {}
    for n, d in sig["posonly"]:
        if d is None or rng.random() < 0.6:
            args.append(val())
        else:
            break
    stopped = len(args) < len(sig["posonly"])
    for n, d in sig["pos"]:
        if stopped:
            if d is None or rng.random() < 0.5:
                kwargs[n] = val()
            continue
        r = rng.random()
        if r < 0.5:
            args.append(val())
        else:
            stopped = True
            if d is None or rng.random() < 0.5:
                kwargs[n] = val()
    if sig["varargs"] and not stopped and rng.random() < 0.5:
        args.extend(val() for _ in range(rng.randint(1, 3)))
    for n, d in sig["kwonly"]:
        if d is None or rng.random() < 0.5:
            kwargs[n] = val()
    if sig["varkw"] and rng.random() < 0.5:
        for k in rng.sample(["extra1", "zz", "logger", "action_type", "task_uuid", "q"] + [n for n, _ in sig["posonly"]], rng.randint(1, 2)):
            if k not in kwargs and k not in [n for n, _ in sig["pos"] + sig["kwonly"]]:
                kwargs[k] = val()
    if not valid:
        r = rng.randrange(5)
        if r == 0:
            args.extend([val()] * 6)
        elif r == 1:
            kwargs["no_such_parameter_zz"] = 1
        elif r == 2 and (sig["pos"] or sig["posonly"]):
            args = []
            for n, _ in sig["pos"]:
                kwargs.pop(n, None)
        elif r == 3 and sig["pos"] and args:
            kwargs[sig["pos"][0][0]] = val()
        elif sig["posonly"]:
            kwargs[sig["posonly"][0][0]] = val()
            args = args[1:]
        else:
            kwargs["no_such_parameter_zz"] = 1
    return args, kwargs


def same(a, b):
    """Equality for logged-vs-bound arguments; one-shot iterators (distinct objects per call) compare by kind only."""
    if hasattr(a, "__next__") and hasattr(b, "__next__"):
        return type(a) is type(b)
    if isinstance(a, (list, tuple)) and isinstance(b, (list, tuple)) and len(a) == len(b):
        return all(same(x, y) for x, y in zip(a, b))
    if isinstance(a, dict) and isinstance(b, dict) and a.keys() == b.keys():
        return all(same(a[k], b[k]) for k in a)
    return a == b


class Channel(object):
    """Side channel between the generated function body and the harness."""

    is_decorated = False

    def __init__(self):
        self.reset()

    def bind(self, loc):
        self.bound = loc

    def reset(self):
        self.calls = 0
        self.bound = None
        self.locals = None
        self.result = None
        self.exc = None
        self.plan = "return"
        self.gen = None
        self.own_result = False

    def hook(self, loc):
        self.calls += 1
        self.locals = loc
        if self.plan == "raise":
            self.exc = excs.UserError("body failure")
            raise self.exc
        if self.plan == "raise_base":
            self.exc = KeyboardInterrupt("body interrupt")
            raise self.exc
        if self.plan == "return_leaky":
            # the function returns while an action it entered (through a plain generator it keeps as a cursor) is still current
            import eliot as _eliot

            def cursor():
                with _eliot.start_action(action_type="leaky:cursor"):
                    yield 1
            self.gen = cursor()
            next(self.gen)

        def show(v):
            # a one-shot iterator handed to the function is consumed HERE, by the function body: its content must still be there
            if hasattr(v, "__next__"):
                return "iterator:%r" % (list(v),)
            if isinstance(v, (tuple, list)):
                return "%s[%s]" % (type(v).__name__, ", ".join(show(x) for x in v))
            if isinstance(v, dict):
                return "dict{%s}" % ", ".join("%r: %s" % (k, show(x)) for k, x in v.items())
            return repr(v)
        self.result = ("R", sorted((k, show(v)) for k, v in loc.items() if k not in ("self", "cls")))
        if self.plan == "return_self" and type(loc.get("self")).__name__ == "Klass":
            self.result = loc["self"]  # a fluent interface: the method returns the object it was called on
        if self.plan == "return_own_result" and self.is_decorated:
            # the function records a success field of its own on the action of its call - also one named result
            import eliot as _eliot
            cur = _eliot.current_action()
            if cur is not None:
                cur.add_success_fields(result="summary recorded by the body", rows=3)
                self.own_result = True
        return self.result


def build(sig, flavour, chan, decorate):
    """Return (callable, undecorated function object, qualname)."""
    if flavour == "stacked":
        # the decorated callable is itself a functools.wraps wrapper with another calling convention than the function it wraps
        import functools
        ns = {"__hook__": chan.hook, "__bind__": chan.bind, "__decorate__": decorate, "__name__": "vf.generated18", "functools": functools}
        src = ('def inner(%s):\n    "doc of target"\n    return __hook__(dict(locals()))\n\n'
               '@__decorate__\n@functools.wraps(inner)\ndef target(*args, retries=3, **kw):\n'
               '    __bind__(dict(locals()))\n    return inner(*args, **kw)\n') % render_params(sig)
        exec(src, ns)
        return ns["target"], "inner"
    first = {"function": None, "method": "self", "static": None, "class": "cls"}[flavour]
    params = render_params(sig, first)
    ns = {"__hook__": chan.hook, "__decorate__": decorate, "__name__": "vf.generated18"}
    body = '    "doc of target"\n    return __hook__(dict(locals()))\n'
    if flavour == "function":
        src = "@__decorate__\ndef target(%s):\n%s" % (params, body)
        exec(src, ns)
        return ns["target"], "target"
    ind = "".join("    " + ln + "\n" for ln in body.splitlines())
    deco = {"method": "    @__decorate__\n", "static": "    @staticmethod\n    @__decorate__\n", "class": "    @classmethod\n    @__decorate__\n"}[flavour]
    src = "class Klass(object):\n%s    def target(%s):\n%s" % (deco, params, ind)
    exec(src, ns)
    K = ns["Klass"]
    return (K().target if flavour == "method" else K.target), "Klass.target"


def classify(clause, sig, key=None, posonly_kw=False):
    """Mechanism key of a violated clause, or None. Keys name a mechanism, never a seed or a value."""
    names = set(all_names(sig))
    # boltons' generated wrapper calls the real function through the names _call / _func: parameters of that name shadow them
    if names & {"_call", "_func"} and clause in ("unexpected-raise", "acceptance", "result", "actions"):
        return "wrapper-internal-name-param"
    # boltons.funcutils.wraps drops the "/" marker: only visible in the signature or when a positional-only name is passed by keyword
    if sig["posonly"] and (clause == "signature" or (posonly_kw and clause in ("acceptance", "result", "startfield", "unexpected-raise"))):
        return "positional-only"
    # a parameter named like one of the keys eliot writes into every action message is overwritten in the flat message
    if clause == "startfield" and key in RESERVED_KEYS and key in names:
        return "reserved-key-param"
    # bound arguments are passed to start_action(**callargs): its own keyword parameters collide
    if clause in ("unexpected-raise", "acceptance", "actions", "startfield") and names & STARTACTION_KW:
        return "startaction-keyword-param"
    return None


def one(seed, i, res, tape):
    rng = random.Random("%s:C18:%d" % (seed, i))
    sig = gen_signature(rng)
    flavour = rng.choice(["function", "function", "method", "static", "class", "stacked"])
    names = all_names(sig)
    opts = {}
    optkind = rng.choice(["bare", "call", "action_type", "include_args", "no_result", "both"])
    if optkind in ("action_type", "both"):
        opts["action_type"] = "custom:type"
    loggable = [n for n in names if n != "self"]
    if flavour == "stacked":
        loggable = ["args", "retries", "kw"]  # the parameters of the callable that is decorated, as Python binds them
    if optkind in ("include_args", "both") and loggable:
        opts["include_args"] = rng.sample(loggable, rng.randint(0, len(loggable)))
        if flavour == "method" and rng.random() < 0.3:
            # self is a parameter too, so it may be named; it is never logged
            opts["include_args"].insert(rng.randint(0, len(opts["include_args"])), "self")
    if optkind in ("no_result", "both"):
        opts["include_result"] = False
    chan_u, chan_d = Channel(), Channel()
    chan_d.is_decorated = True
    problems = []  # (clause, key, text, posonly_kw)
    posonly_names = set(n for n, _ in sig["posonly"])
    pk = [False]

    class _P(list):
        def append(self, item):
            list.append(self, tuple(item) + (pk[0],))
    problems = _P()

    shared = [None]

    positional = rng.random() < 0.2

    def deco(f):
        if optkind == "bare":
            return log_call(f)
        if positional:
            # the options passed positionally, in their documented order: (wrapped_function, action_type, include_args, include_result)
            res["counters"]["decorations_with_positional_options"] = res["counters"].get("decorations_with_positional_options", 0) + 1
            return log_call(f, opts.get("action_type"), opts.get("include_args"), opts.get("include_result", True))
        if shared[0] is None:
            # a decorator object kept in a variable and applied to several functions: first to a bystander, then to the target
            shared[0] = log_call(**{k: v for k, v in opts.items() if k != "include_args"}) if "include_args" in opts else log_call(**opts)
            if "include_args" not in opts:
                def bystander(zzz=1):
                    return zzz
                bystander.__module__ = "vf.generated18"
                shared[0](bystander)
                return shared[0](f)
        return log_call(**opts)(f)

    try:
        und, qual = build(sig, flavour, chan_u, lambda f: f)
    except SyntaxError:
        return
    try:
        dec, _ = build(sig, flavour, chan_d, deco)
    except BaseException as e:
        problems.append(("decorate", None, "decorating raised %r" % (e,)))
        dec = None
    raw_u = und.__func__ if flavour in ("method", "class") else und
    if dec is not None:
        raw_d = dec.__func__ if flavour in ("method", "class") else dec
        if raw_d.__name__ != raw_u.__name__ or raw_d.__doc__ != "doc of target":
            problems.append(("metadata", None, "__name__/__doc__ not preserved: %r %r" % (raw_d.__name__, raw_d.__doc__)))
        try:
            # what tools that do not follow __wrapped__ see (inspect.getfullargspec, getcallargs-based decorators stacked on top)
            if inspect.getfullargspec(raw_d)[:6] != inspect.getfullargspec(raw_u)[:6]:
                problems.append(("signature", None, "getfullargspec %s became %s" % (inspect.getfullargspec(raw_u)[:6], inspect.getfullargspec(raw_d)[:6])))
        except BaseException as e:
            problems.append(("signature", None, "inspect.getfullargspec raised %r" % (e,)))
        try:
            if str(inspect.signature(raw_d)) != str(inspect.signature(raw_u)):
                problems.append(("signature", None, "signature %s became %s" % (inspect.signature(raw_u), inspect.signature(raw_d))))
        except BaseException as e:
            problems.append(("signature", None, "inspect.signature raised %r" % (e,)))
    ncalls = 0
    for _ in range(3 if dec is not None else 0):
        valid = rng.random() < 0.7
        args, kwargs = gen_args(rng, sig, valid)
        if flavour == "stacked" and rng.random() < 0.5 and "retries" not in all_names(sig):
            kwargs["retries"] = rng.randint(0, 9)
        plan = rng.choice(["return", "return", "raise", "raise_base", "return_leaky", "return_self", "return_own_result"])
        chan_u.reset()
        chan_d.reset()
        chan_u.plan = chan_d.plan = plan
        pk[0] = bool(posonly_names & set(kwargs))
        import copy
        if rng.random() < 0.15 and args:
            # a one-shot iterator as argument: logging it must not consume it (deepcopy gives each side its own iterator)
            args = list(args)
            args[rng.randrange(len(args))] = iter([1, 2, 3])
            res["counters"]["iterator_arguments"] = res["counters"].get("iterator_arguments", 0) + 1
        import contextvars

        def in_own_context(fn, chan, a, kw):
            # (the leaked action must not outlive the call: run it in a context of its own and close the cursor there)
            def run():
                try:
                    return fn(*a, **kw)
                finally:
                    if chan.gen is not None:
                        chan.gen.close()
                        chan.gen = None
            return contextvars.copy_context().run(run) if plan == "return_leaky" else fn(*a, **kw)
        try:
            ru = in_own_context(und, chan_u, copy.deepcopy(args), copy.deepcopy(kwargs))
            ou = ("ret", ru)
        except TypeError as e:
            ou = ("typeerror", e) if chan_u.calls == 0 else ("raise", e)
        except BaseException as e:
            ou = ("raise", e)
        before = len(tape.entries)
        try:
            r_ctx = rng.random()
            if r_ctx > 0.8:
                # the call is made from fallback / clean-up code inside an except block: another, unrelated exception is being handled
                res["counters"]["calls_while_handling_another_exception"] = res["counters"].get("calls_while_handling_another_exception", 0) + 1
                try:
                    raise KeyError("unrelated, being handled by the caller")
                except KeyError:
                    rd = in_own_context(dec, chan_d, copy.deepcopy(args), copy.deepcopy(kwargs))
            elif r_ctx < 0.2:
                # the caller is inside an action that was started with a logger object of its own: the decorated call still logs
                # through the default logger to the registered destinations
                from vf.interp import _Sink
                import eliot as _eliot
                res["counters"]["calls_inside_foreign_logger_action"] = res["counters"].get("calls_inside_foreign_logger_action", 0) + 1
                with _eliot.start_action(_Sink(), "c18:outer"):
                    rd = in_own_context(dec, chan_d, copy.deepcopy(args), copy.deepcopy(kwargs))
            else:
                rd = in_own_context(dec, chan_d, copy.deepcopy(args), copy.deepcopy(kwargs))
            od = ("ret", rd)
        except TypeError as e:
            od = ("typeerror", e) if chan_d.calls == 0 else ("raise", e)
        except BaseException as e:
            od = ("raise", e)
        msgs = [e["m"] for e in tape.entries[before:] if e["k"] == "msg" and e["m"].get("message_type") != "eliot:destination_failure"
                and e["m"].get("action_type") != "leaky:cursor"]
        ncalls += 1
        desc = "%s(%s) args=%r kwargs=%r plan=%s opts=%s" % (flavour, render_params(sig), args, kwargs, plan, opts)
        if od[0] == "raise" and od[1] is not chan_d.exc:
            problems.append(("unexpected-raise", None, "decorated call raised %r where the function %s: %s" % (od[1], "returns" if ou[0] == "ret" else "raises " + repr(ou[1]), desc)))
            continue
        if ou[0] != od[0]:
            if od[0] == "raise" and od[1] is not chan_d.exc:
                problems.append(("unexpected-raise", None, "decorated call raised %r where the function %s: %s" % (od[1], "returns" if ou[0] == "ret" else "raises " + repr(ou[1]), desc)))
            else:
                problems.append(("acceptance", None, "undecorated call -> %s, decorated call -> %s (%r): %s" % (ou[0], od[0], od[1], desc)))
            continue
        if ou[0] == "typeerror":
            if chan_d.calls:
                problems.append(("acceptance", None, "body ran although the argument list is rejected: " + desc))
            continue
        if chan_d.calls != 1:
            problems.append(("result", None, "body ran %d times: %s" % (chan_d.calls, desc)))
        if ou[0] == "ret":
            if od[1] is not chan_d.result:
                problems.append(("result", None, "decorated call returned %r, not the body's result object: %s" % (od[1], desc)))
            if od[1] != ou[1] and not (plan == "return_self" and type(od[1]).__name__ == type(ou[1]).__name__ and not isinstance(od[1], tuple)):
                # (a method that returns the object it was called on returns a different instance on each side: identity with the
                # body's result object, checked above, is what counts there)
                problems.append(("result", None, "decorated result %r != undecorated %r: %s" % (od[1], ou[1], desc)))
        else:
            if od[1] is not chan_d.exc:
                problems.append(("unexpected-raise", None, "decorated call raised %r, body raised %r: %s" % (od[1], chan_d.exc, desc)))
                continue
        # mutable defaults must be the function's own default objects (shared, as in the undecorated function)
        # ---- the logged action
        starts = [m for m in msgs if m.get("action_status") == "started"]
        ends = [m for m in msgs if m.get("action_status") in ("succeeded", "failed")]
        if len(starts) != 1 or len(ends) != 1 or len(msgs) != 2:
            problems.append(("actions", None, "%d start / %d end / %d messages logged for one call: %s" % (len(starts), len(ends), len(msgs), desc)))
            continue
        s, e = starts[0], ends[0]
        want_type = opts.get("action_type") or "vf.generated18." + qual
        # "as Python binds them": the locals the undecorated function saw on entry (inspect.Signature.bind of 3.12 wrongly
        # rejects a positional-only name passed through **kwargs, so the interpreter's own binding is the reference)
        expected = dict(chan_u.bound if flavour == "stacked" else chan_u.locals)
        if flavour == "method":
            expected.pop("self", None)
        elif flavour == "class":
            expected["cls"] = "<class>"
        expected.pop("self", None)
        if "include_args" in opts:
            expected = {k: expected[k] for k in opts["include_args"] if k != "self"}
        got = {k: v for k, v in s.items() if k not in META}
        if flavour == "class" and "cls" in got:
            got["cls"] = "<class>"
        if s.get("action_type") != want_type or e.get("action_type") != want_type:
            if not ("action_type" in names):
                problems.append(("actiontype", None, "action_type %r, expected %r: %s" % (s.get("action_type"), want_type, desc)))
            else:
                problems.append(("startfield", "action_type", "action_type %r, expected %r: %s" % (s.get("action_type"), want_type, desc)))
        for k in set(expected) | set(got):
            if k in META:
                # parameter named like a reserved key: its value should be what Python bound
                if k in expected and not same(s.get(k), expected[k]):
                    problems.append(("startfield", k, "start message field %r is %r, Python bound %r: %s" % (k, s.get(k), expected[k], desc)))
                continue
            if k not in got:
                problems.append(("startfield", k, "start message lacks argument %r: %s" % (k, desc)))
            elif k not in expected:
                problems.append(("startfield", k, "start message has %r=%r which is not a bound argument: %s" % (k, got[k], desc)))
            elif not same(got[k], expected[k]):
                problems.append(("startfield", k, "start message has %r=%r, Python bound %r: %s" % (k, got[k], expected[k], desc)))
        for k in expected:
            if k in META and k not in s:
                problems.append(("startfield", k, "start message lacks argument %r: %s" % (k, desc)))
        if ou[0] == "ret":
            if e.get("action_status") != "succeeded":
                problems.append(("actions", None, "action ended %r for a returning call: %s" % (e.get("action_status"), desc)))
            if opts.get("include_result", True):
                def same_result(a, b):
                    if a is b or a == b:
                        return True
                    try:
                        return a == list(b) or tuple(a) == b
                    except TypeError:
                        return False
                if "result" not in e or not same_result(e["result"], od[1]):
                    problems.append(("resultfield", None, "end message result %r, returned %r: %s" % (e.get("result"), od[1], desc)))
                if plan == "return_self":
                    res["counters"]["methods_returning_the_object_they_were_called_on"] = res["counters"].get("methods_returning_the_object_they_were_called_on", 0) + int(od[1] is not None and not isinstance(od[1], tuple))
                if chan_d.own_result:
                    res["counters"]["bodies_recording_their_own_result_field"] = res["counters"].get("bodies_recording_their_own_result_field", 0) + 1
                    if e.get("rows") != 3:
                        problems.append(("resultfield", None, "a success field the body recorded on its call's action (rows=3) is missing from the end message: %s" % desc))
            elif chan_d.own_result:
                if e.get("result") != "summary recorded by the body":
                    problems.append(("resultfield", None, "include_result=False and the body recorded its own field named result: end message has %r: %s" % (e.get("result"), desc)))
            elif "result" in e:
                problems.append(("resultfield", None, "result logged although include_result=False: %s" % desc))
        else:
            if e.get("action_status") != "failed" or e.get("exception") != excs.qualname(type(chan_d.exc)):
                problems.append(("actions", None, "action ended %r/%r for a raising call: %s" % (e.get("action_status"), e.get("exception"), desc)))
    if flavour == "stacked" and names and names[0] not in ("args", "retries", "kw", "self"):
        # a parameter of the function behind functools.wraps is not a parameter of the decorated callable: refused when decorating,
        # never a KeyError at call time
        try:
            bad = log_call(include_args=[names[0]])(raw_u)
            try:
                bad(*([1] * len(sig["posonly"] + sig["pos"])))
                problems.append(("decorate", None, "include_args naming a parameter of the wrapped-away function was accepted"))
            except KeyError as e:
                problems.append(("unexpected-raise", None, "include_args=[%r] on a functools.wraps wrapper: KeyError %s at call time" % (names[0], e)))
            except BaseException:
                problems.append(("decorate", None, "include_args naming a parameter of the wrapped-away function was accepted"))
        except ValueError:
            pass
    # invalid include_args must be refused at decoration time
    if rng.random() < 0.1:
        try:
            log_call(include_args=["definitely_not_a_parameter"])(raw_u)
            problems.append(("decorate", None, "include_args naming a non-parameter was accepted"))
        except ValueError:
            pass
        except BaseException as e:
            problems.append(("decorate", None, "include_args naming a non-parameter raised %r" % (e,)))
    res["evals"] += ncalls
    c = res["counters"]
    c["calls_compared"] = c.get("calls_compared", 0) + ncalls
    d = c.setdefault("flavours", {})
    d[flavour] = d.get(flavour, 0) + 1
    special = [n for n in names if n in SPECIAL]
    if special or sig["posonly"] or sig["varargs"] or sig["varkw"] or sig["kwonly"]:
        res["nontrivial"].append(h([render_params(sig), flavour, sorted(opts.items())]))
    for n in special:
        res["sets"]["special_names_used"].append(n)
    if res.get("sample") is None and special and ncalls:
        res["sample"] = {"signature": "%s target(%s)" % (flavour, render_params(sig)), "options": opts, "calls": ncalls}
    pk[0] = False
    seen = set()
    for clause, key, text, posonly_kw in problems:
        mech = classify(clause, sig, key, posonly_kw)
        if (clause, mech) in seen:
            continue
        seen.add((clause, mech))
        res["violations"].append({"msg": "[%s] %s" % (clause, text), "mech": mech,
                                  "detail": {"case": i, "signature": render_params(sig), "flavour": flavour, "options": opts, "clause": clause, "key": key}})

# ---------------------------------------------------------------------------------------------------------------------------
# part 'layers': stacks of decorations over one plain function; default logger replaced between decorating and calling


class _ListLogger(object):
    """A minimal ILogger of the harness."""

    def __init__(self):
        self.messages = []

    def write(self, dictionary, serializer=None):
        self.messages.append(dictionary)


class _Truth(object):
    """What the harness's own code (function body, plain wrappers) saw: ("enter", layer, binding) / ("exit", layer, kind, object)."""

    def __init__(self):
        self.events = []
        self.script = ["return"]
        self.attempt = 0

    def reset(self, script):
        self.events = []
        self.script = script
        self.attempt = 0

    def hook(self, loc):
        self.events.append(("enter", 0, loc))
        plan = self.script[min(self.attempt, len(self.script) - 1)]
        self.attempt += 1
        exc = None
        if plan == "raise":
            exc = excs.UserError("body failure %d" % self.attempt)
        elif plan == "raise_base":
            exc = KeyboardInterrupt("body interrupt %d" % self.attempt)
        if exc is not None:
            self.events.append(("exit", 0, "raise", exc))
            raise exc
        result = ("R", self.attempt, sorted((k, repr(v)) for k, v in loc.items()))
        self.events.append(("exit", 0, "ret", result))
        return result


def gen_plain_signature(rng):
    """Ordinary parameter names, no positional-only parameters (those mechanisms belong to the main part)."""
    while True:
        sig = gen_signature(rng)
        if not sig["posonly"] and not (set(all_names(sig)) & set(SPECIAL)):
            return sig


def plain_wrapper(kind, times, j, truth):
    """An ordinary functools.wraps decorator (retry on the body's error / pass-through timing) that reports to the harness."""
    import functools

    def decorator(f):
        @functools.wraps(f)
        def wrapper(*args, **kwargs):
            truth.events.append(("enter", j, {"args": args, "kwargs": dict(kwargs)}))
            try:
                if kind == "retry":
                    last = None
                    for _ in range(times):
                        try:
                            r = f(*args, **kwargs)
                            break
                        except excs.UserError as e:
                            last = e
                    else:
                        raise last
                else:
                    r = f(*args, **kwargs)
            except BaseException as e:
                truth.events.append(("exit", j, "raise", e))
                raise
            truth.events.append(("exit", j, "ret", r))
            return r
        return wrapper
    return decorator


def derive_expected(kinds, events):
    """The messages the property demands, from what the harness's own layers saw: every log_call decoration directly above a
    harness layer (contiguously) starts its action before each entry of that layer, outermost first, with that entry's binding,
    and ends it after the matching exit, innermost first, with that exit's outcome."""
    out = []
    for ev in events:
        run = []
        k = ev[1] + 1
        while k < len(kinds) and kinds[k] == "log":
            run.append(k)
            k += 1
        if ev[0] == "enter":
            for k in reversed(run):
                out.append((k, "start", ev[2]))
        else:
            for k in run:
                out.append((k, "end", ev[2], ev[3]))
    return out


def layers(seed, i, res, tape):
    import copy
    import unittest
    from eliot import MemoryLogger, start_action
    from eliot.testing import swap_logger, capture_logging
    rng = random.Random("%s:C18:layers:%d" % (seed, i))
    sig = gen_plain_signature(rng)
    names = all_names(sig)
    c = res["counters"]
    nl = rng.choice([1, 2, 2, 3, 3, 4])
    kinds = ["base"] + [rng.choice(["log", "log", "retry", "timing"]) for _ in range(nl)]
    if "log" not in kinds:
        kinds[rng.randint(1, nl)] = "log"
    times = {j: rng.randint(1, 3) for j in range(len(kinds)) if kinds[j] == "retry"}
    truth_u, truth_d = _Truth(), _Truth()
    problems = []  # (clause, text)

    def base(truth):
        ns = {"__hook__": truth.hook, "__name__": "vf.generated18"}
        exec('def target(%s):\n    "doc of target"\n    return __hook__(dict(locals()))\n' % render_params(sig), ns)
        return ns["target"]
    try:
        und = base(truth_u)
    except SyntaxError:
        return
    dec = base(truth_d)
    layer_opts = {}
    want_type = {}
    for j in range(1, len(kinds)):
        if kinds[j] != "log":
            und = plain_wrapper(kinds[j], times.get(j), j, truth_u)(und)
            dec = plain_wrapper(kinds[j], times.get(j), j, truth_d)(dec)
            continue
        # the parameters of the callable that is decorated, as Python binds them: the function's own below an unbroken run of
        # log_call decorations, (*args, **kwargs) when a plain wrapper is in between
        below = j - 1
        while kinds[below] == "log":
            below -= 1
        params = names if below == 0 else ["args", "kwargs"]
        opts = {}
        if rng.random() < 0.5:
            opts["action_type"] = "layer%d:type" % j
        if rng.random() < 0.4 and params:
            opts["include_args"] = rng.sample(params, rng.randint(0, len(params)))
        if rng.random() < 0.3:
            opts["include_result"] = False
        layer_opts[j] = opts
        want_type[j] = opts.get("action_type") or "%s.%s" % (dec.__module__, dec.__qualname__)
        given = dec
        try:
            dec = log_call(**opts)(given) if opts else log_call(given)
        except BaseException as e:
            problems.append(("decorate", "log_call(%s) on layer %d of %s raised %r" % (opts, j - 1, kinds, e)))
            dec = None
            break
        try:
            if dec.__name__ != given.__name__ or dec.__doc__ != "doc of target" or str(inspect.signature(dec)) != str(inspect.signature(given)):
                problems.append(("metadata", "name/doc/signature not kept by decoration %d of %s: %r %r %s" % (j, kinds, dec.__name__, dec.__doc__, inspect.signature(dec))))
        except BaseException as e:
            problems.append(("metadata", "inspecting decoration %d of %s raised %r" % (j, kinds, e)))
    nlog = sum(1 for k in kinds if k == "log")
    log_on_log = any(kinds[j] == "log" and kinds[j - 1] == "log" for j in range(2, len(kinds)))
    log_on_wrapped_log = any(kinds[j] == "log" and kinds[j - 1] in ("retry", "timing") and "log" in kinds[1:j - 1] for j in range(3, len(kinds)))

    def attempt(fn, a, kw, parent):
        try:
            if parent:
                with start_action(action_type="c18:parent"):
                    return ("ret", fn(*a, **kw))
            return ("ret", fn(*a, **kw))
        except BaseException as e:
            return ("raise", e)

    ncalls = 0
    for _ in range(3 if dec is not None else 0):
        valid = rng.random() < 0.85
        args, kwargs = gen_args(rng, sig, valid)
        script = rng.choice([["return"], ["return"], ["raise"], ["raise_base"], ["raise", "return"], ["raise", "raise", "return"],
                             ["raise", "raise_base"]])
        env = rng.choice(["default", "default", "memory", "sink", "capture"])
        parent = rng.random() < 0.25
        truth_u.reset(script)
        truth_d.reset(script)
        ou = attempt(und, copy.deepcopy(args), copy.deepcopy(kwargs), False)
        before = len(tape.entries)
        a2, kw2 = copy.deepcopy(args), copy.deepcopy(kwargs)
        # ---- decorate happened above; now (maybe) replace the default logger; then call
        if env == "default":
            od = attempt(dec, a2, kw2, parent)
            inforce = [e["m"] for e in tape.entries[before:] if e["k"] == "msg"]
            stray = []
        elif env in ("memory", "sink"):
            logger = MemoryLogger() if env == "memory" else _ListLogger()
            previous = swap_logger(logger)
            try:
                od = attempt(dec, a2, kw2, parent)
            finally:
                swap_logger(previous)
            inforce = list(logger.messages)
            stray = [e["m"] for e in tape.entries[before:] if e["k"] == "msg"]
        else:
            box = {}

            class _Tests(unittest.TestCase):
                @capture_logging(None)
                def test_call(self, logger):
                    box["logger"] = logger
                    box["out"] = attempt(dec, a2, kw2, parent)
            _Tests("test_call").run(unittest.TestResult())
            if "out" not in box:
                continue
            od = box["out"]
            inforce = list(box["logger"].messages)
            stray = [e["m"] for e in tape.entries[before:] if e["k"] == "msg"]
        ncalls += 1
        if env != "default":
            c["layers_calls_after_default_logger_replaced"] = c.get("layers_calls_after_default_logger_replaced", 0) + 1
        drop = lambda ms: [m for m in ms if m.get("message_type") != "eliot:destination_failure" and m.get("action_type") != "c18:parent"]
        msgs, stray = drop(inforce), drop(stray)
        desc = "stack=%s options=%s target(%s) args=%r kwargs=%r body=%s logger=%s%s" % (
            kinds, layer_opts, render_params(sig), args, kwargs, script, env, " inside start_action" if parent else "")
        reached = any(e[0] == "enter" and e[1] == 0 for e in truth_d.events)
        if reached and log_on_log:
            c["layers_calls_through_log_call_on_log_call"] = c.get("layers_calls_through_log_call_on_log_call", 0) + 1
        if reached and log_on_wrapped_log:
            c["layers_calls_through_log_call_on_plain_wrapper_of_log_call"] = c.get("layers_calls_through_log_call_on_plain_wrapper_of_log_call", 0) + 1
        # ---- transparency: the harness's own layers saw the same thing with and without the log_call decorations
        skel = lambda t: [(e[0], e[1]) + ((e[2],) if e[0] == "exit" else ()) for e in t.events]
        if skel(truth_u) != skel(truth_d):
            problems.append(("result", "the function / plain wrappers ran %s without log_call and %s with it: %s" % (skel(truth_u), skel(truth_d), desc)))
            continue
        exits0 = [e for e in truth_d.events if e[0] == "exit" and e[1] == 0]
        if ou[0] != od[0]:
            problems.append(("acceptance", "undecorated stack -> %s (%r), decorated -> %s (%r): %s" % (ou[0], ou[1], od[0], od[1], desc)))
            continue
        if od[0] == "ret":
            if not exits0 or od[1] is not exits0[-1][3] or od[1] != ou[1]:
                problems.append(("result", "decorated stack returned %r, not the body's result object: %s" % (od[1], desc)))
        elif exits0:
            if od[1] is not exits0[-1][3]:
                problems.append(("unexpected-raise", "decorated stack raised %r, the body raised %r: %s" % (od[1], exits0[-1][3], desc)))
                continue
        elif type(od[1]) is not type(ou[1]):
            problems.append(("unexpected-raise", "decorated stack raised %r, undecorated %r: %s" % (od[1], ou[1], desc)))
            continue
        # ---- the logged actions, at the default logger in force when the call was made
        expected = derive_expected(kinds, truth_d.events)
        where = "the registered destinations" if env == "default" else "the default logger in force at call time"
        if stray:
            problems.append(("logger", "%d messages %r of the call reached the registered destinations although another default logger was in force "
                             "when the call was made (that logger got %d messages): %s"
                             % (len(stray), [(m.get("action_type"), m.get("action_status")) for m in stray][:8], len(msgs), desc)))
            continue
        summary = [(m.get("action_type"), m.get("action_status")) for m in msgs]
        want_summary = [(want_type[x[0]], "started" if x[1] == "start" else {"ret": "succeeded", "raise": "failed"}[x[2]]) for x in expected]
        if summary != want_summary:
            problems.append(("actions", "every log_call decoration logs its own action, nested: expected %r at %s, got %r: %s" % (want_summary, where, summary, desc)))
            continue
        for m, x in zip(msgs, expected):
            k = x[0]
            opts = layer_opts[k]
            got = {f: v for f, v in m.items() if f not in META}
            if x[1] == "start":
                want = dict(x[2])
                if "include_args" in opts:
                    want = {f: want[f] for f in opts["include_args"]}
                if set(got) != set(want) or not all(same(got[f], want[f]) for f in want):
                    problems.append(("startfield", "decoration %d start message fields %r, Python bound %r: %s" % (k, got, want, desc)))
                    break
            elif x[2] == "ret":
                if opts.get("include_result", True):
                    if set(got) != {"result"} or not same(got["result"], x[3]):
                        problems.append(("resultfield", "decoration %d end message fields %r, returned %r: %s" % (k, got, x[3], desc)))
                        break
                elif got:
                    problems.append(("resultfield", "decoration %d has include_result=False, end message fields %r: %s" % (k, got, desc)))
                    break
            elif m.get("exception") != excs.qualname(type(x[3])):
                problems.append(("actions", "decoration %d end message exception %r for %r: %s" % (k, m.get("exception"), x[3], desc)))
                break
    res["evals"] += ncalls
    c["layers_calls"] = c.get("layers_calls", 0) + ncalls
    d = c.setdefault("layers_stack_depths", {})
    d["%d log_call of %d" % (nlog, nl)] = d.get("%d log_call of %d" % (nlog, nl), 0) + 1
    if ncalls:
        res["nontrivial"].append(h(["layers", kinds, sorted((k, sorted(v.items())) for k, v in layer_opts.items()), render_params(sig)]))
    seen = set()
    for clause, text in problems:
        if clause in seen:
            continue
        seen.add(clause)
        res["violations"].append({"msg": "[layers:%s] %s" % (clause, text), "mech": None,
                                  "detail": {"case": i, "part": "layers", "signature": render_params(sig), "stack": kinds,
                                             "options": {str(k): v for k, v in layer_opts.items()}, "clause": clause}})


# ---------------------------------------------------------------------------------------------------------------------------
# part 'startup': decorated calls made before (and across, and after) the first add_destinations of a process


def gen_startup_history(rng):
    """1-3 decorated functions / methods; 1-5 top-level calls, the first add_destinations, 0-3 more calls. A call is a tree: the
    body logs messages, starts actions, calls other decorated functions (catching their UserError or not), then returns / raises."""
    nf = rng.randint(1, 3)
    fns = []
    for j in range(nf):
        sig = gen_plain_signature(rng)
        names = all_names(sig)
        opts = {}
        if rng.random() < 0.4:
            opts["action_type"] = "startup%d:type" % j
        if rng.random() < 0.35 and names:
            opts["include_args"] = rng.sample(names, rng.randint(0, len(names)))
        if rng.random() < 0.3:
            opts["include_result"] = False
        fns.append({"sig": sig, "flavour": rng.choice(["function", "function", "method"]), "opts": opts})
    counter = [0]

    def node(depth):
        j = rng.randrange(nf)
        args, kwargs = gen_args(rng, fns[j]["sig"], True)
        nd = {"id": counter[0], "fn": j, "args": args, "kwargs": kwargs, "steps": [], "depth": depth,
              "plan": rng.choice(["return", "return", "return", "return", "raise", "raise", "raise_base"])}
        counter[0] += 1
        for _ in range(rng.choice([0, 0, 1, 1, 2, 3])):
            r = rng.random()
            if depth < 2 and r < 0.4:
                nd["steps"].append(["call", node(depth + 1), rng.random() < 0.5])
            elif r < 0.55:
                nd["steps"].append(["action"])
            else:
                nd["steps"].append(["msg", rng.choice(["log_message", "Message.log"])])
        return nd
    nbefore = rng.randint(1, 5)
    nafter = rng.choice([0, 1, 1, 2, 3])
    add_in_body = rng.random() < 0.3
    if add_in_body and nafter == 0:
        nafter = 1
    calls = [{"node": node(0), "parent": rng.random() < 0.2} for _ in range(nbefore + nafter)]
    if add_in_body:
        # the first add_destinations is made by the body of a decorated call (a logged main() / setup function)
        nodes = []

        def collect(nd):
            nodes.append(nd)
            for s in nd["steps"]:
                if s[0] == "call":
                    collect(s[1])
        collect(calls[nbefore]["node"])
        nd = rng.choice(nodes)
        nd["steps"].insert(rng.randint(0, len(nd["steps"])), ["add"])
    return {"fns": fns, "calls": calls, "add_after": nbefore, "add_in_body": add_in_body, "prelude": rng.random() < 0.75,
            "with_file": rng.random() < 0.4}


def _show_fn(hist, j):
    f = hist["fns"][j]
    return "%s fn%d(%s) log_call options %s" % (f["flavour"], j, render_params(f["sig"], "self" if f["flavour"] == "method" else None), f["opts"] or "none")


def _show_node(node):
    steps = []
    for s in node["steps"]:
        if s[0] == "call":
            steps.append("%s <%s>" % ("call, UserError caught:" if s[2] else "call:", _show_node(s[1])))
        elif s[0] == "msg":
            steps.append(s[1])
        elif s[0] == "action":
            steps.append("start_action")
        else:
            steps.append("add_destinations")
    return "fn%d(*%r, **%r) body=[%s] then %s" % (node["fn"], node["args"], node["kwargs"], "; ".join(steps), node["plan"])


def _shape(node):
    return [node["fn"], node["plan"], [[s[0]] + ([_shape(s[1]), s[2]] if s[0] == "call" else []) for s in node["steps"]]]


class _StartupRun(object):
    """One execution of a history's functions: decorated (bodies log through eliot) or undecorated (the reference: never touches eliot)."""

    def __init__(self, hist, decorated, do_add=None, added=None):
        self.hist = hist
        self.decorated = decorated
        self.do_add = do_add
        self.added = added or (lambda: False)
        self.rec = {}       # node id -> what the body saw
        self.pending = None
        self.extra = 0
        self.problems = []  # (clause, text)
        self.body_messages_before_add = 0
        self.fns = [self.build(j, f) for j, f in enumerate(hist["fns"])]

    def build(self, j, f):
        if self.decorated:
            decorate = (lambda fn: log_call(**f["opts"])(fn)) if f["opts"] else log_call
        else:
            decorate = lambda fn: fn
        ns = {"__hook__": lambda loc: self.hook(j, loc), "__decorate__": decorate, "__name__": "vf.generated18"}
        if f["flavour"] == "function":
            exec('@__decorate__\ndef fn%d(%s):\n    "doc of target"\n    return __hook__(dict(locals()))\n' % (j, render_params(f["sig"])), ns)
            return ns["fn%d" % j]
        exec('class Klass%d(object):\n    @__decorate__\n    def fn%d(%s):\n        "doc of target"\n        return __hook__(dict(locals()))\n'
             % (j, j, render_params(f["sig"], "self")), ns)
        return getattr(ns["Klass%d" % j](), "fn%d" % j)

    def call(self, node):
        import copy
        self.pending = node
        return self.fns[node["fn"]](*copy.deepcopy(node["args"]), **copy.deepcopy(node["kwargs"]))

    def top(self, c):
        import eliot
        try:
            if c["parent"] and self.decorated:
                # the application's own action is current around the call
                with eliot.start_action(action_type="c18:parent"):
                    return ("ret", self.call(c["node"]))
            return ("ret", self.call(c["node"]))
        except BaseException as e:
            return ("raise", e)

    def hook(self, j, loc):
        node, self.pending = self.pending, None
        if node is None or node["fn"] != j:
            self.extra += 1
            return ("R", "a run of the body that nobody asked for")
        rec = self.rec[node["id"]] = {"bound": {k: v for k, v in loc.items() if k != "self"}, "started": 0, "out": None,
                                      "entered_before_add": not self.added(), "left_before_add": None}
        try:
            for k, step in enumerate(node["steps"]):
                rec["started"] = k + 1
                self.step(node, k, step)
            if node["plan"] == "raise":
                raise excs.UserError("body failure in call %d" % node["id"])
            if node["plan"] == "raise_base":
                raise KeyboardInterrupt("body interrupt in call %d" % node["id"])
        except BaseException as e:
            rec["out"] = ("raise", e)
            rec["left_before_add"] = not self.added()
            raise
        result = ("R", node["id"], sorted((k, repr(v)) for k, v in rec["bound"].items()))
        rec["out"] = ("ret", result)
        rec["left_before_add"] = not self.added()
        return result

    def step(self, node, k, step):
        import eliot
        if step[0] == "call":
            child = step[1]
            try:
                got = self.call(child)
            except BaseException as e:
                crec = self.rec.get(child["id"])
                if crec is None or crec["out"] is None or crec["out"][1] is not e:
                    self.problems.append(("unexpected-raise", "the nested call %s raised %r, its body %s" % (
                        _show_node(child), e, "was never entered" if crec is None or crec["out"] is None else "%s %r" % (
                            {"ret": "returned", "raise": "raised"}[crec["out"][0]], crec["out"][1]))))
                if isinstance(e, excs.UserError) and step[2]:
                    return
                raise
            crec = self.rec.get(child["id"])
            if crec is None or crec["out"] is None or crec["out"][1] is not got:
                self.problems.append(("result", "the nested call %s returned %r, not the object its body %s" % (
                    _show_node(child), got, "returned (it was never entered)" if crec is None or crec["out"] is None else "%s: %r" % (
                        {"ret": "returned", "raise": "raised"}[crec["out"][0]], crec["out"][1]))))
            return
        if not self.decorated:
            return
        if step[0] == "add":
            self.do_add()
            return
        if not self.added():
            self.body_messages_before_add += 1
        if step[0] == "msg":
            if step[1] == "log_message":
                eliot.log_message(message_type="c18:body", c18_node=node["id"], c18_k=k)
            else:
                eliot.Message.log(message_type="c18:body", c18_node=node["id"], c18_k=k)
        else:
            with eliot.start_action(action_type="c18:body_action", c18_node=node["id"], c18_k=k):
                pass


def _startup_segment(hist, run, c, out):
    """The messages the property demands for one top-level call, from what the bodies saw: each entry names the entry of the action
    it must be a child of."""
    seg = []
    if c["parent"]:
        seg.append({"kind": "pstart", "parent": None, "sum": ("c18:parent", "started", None, None)})

    def walk(node, parent):
        rec = run.rec[node["id"]]
        f = hist["fns"][node["fn"]]
        typ = f["opts"].get("action_type") or "vf.generated18.%sfn%d" % ("Klass%d." % node["fn"] if f["flavour"] == "method" else "", node["fn"])
        me = len(seg)
        seg.append({"kind": "start", "node": node, "parent": parent, "sum": (typ, "started", None, None)})
        for k in range(rec["started"]):
            step = node["steps"][k]
            if step[0] == "msg":
                seg.append({"kind": "msg", "node": node, "parent": me, "sum": ("c18:body", None, node["id"], k)})
            elif step[0] == "action":
                seg.append({"kind": "astart", "node": node, "parent": me, "sum": ("c18:body_action", "started", node["id"], k)})
                seg.append({"kind": "aend", "node": node, "parent": len(seg) - 1, "sum": ("c18:body_action", "succeeded", None, None)})
            elif step[0] == "call" and step[1]["id"] in run.rec:
                walk(step[1], me)
        seg.append({"kind": "end", "node": node, "parent": me, "sum": (typ, {"ret": "succeeded", "raise": "failed"}[rec["out"][0]], None, None)})
    walk(c["node"], 0 if c["parent"] else None)
    if c["parent"]:
        seg.append({"kind": "pend", "parent": 0, "sum": ("c18:parent", {"ret": "succeeded", "raise": "failed"}[out[0]], None, None)})
    return seg


def startup_child(hist, i):
    """Runs in a fresh fork that has never added a destination; judges there (object identities) and returns a result dict."""
    import io
    import eliot
    sub = {"evals": 0, "nontrivial": [], "counters": {}, "violations": [], "sample": None}
    c = sub["counters"]
    problems = []  # (clause, text)
    calls = hist["calls"]
    try:
        ref = _StartupRun(hist, False)
    except SyntaxError:
        return sub
    ref_outs = [ref.top(x) for x in calls]
    tape = Tape()
    rec = Recorder(tape, "rec", deep=False)
    state = {"added": False, "at_add": None}

    def do_add():
        if state["added"]:
            return
        state["added"] = True
        if hist["with_file"]:
            add_destinations(rec, eliot.FileDestination(file=io.BytesIO()))
        else:
            add_destinations(rec)
        state["at_add"] = [e["m"].get("message_type") for e in tape.entries if e["k"] == "msg"]
    # ---- the application: decorate at import time, log, call, set up logging at some point, call
    run = None
    try:
        run = _StartupRun(hist, True, do_add, lambda: state["added"])
    except BaseException as e:
        problems.append(("decorate", "decorating raised %r" % (e,)))
    outs, phases = [], []
    if run is not None:
        if hist["prelude"]:
            eliot.log_message(message_type="c18:prelude")
        for n, x in enumerate(calls):
            if n == hist["add_after"] and not hist["add_in_body"]:
                do_add()
            was = state["added"]
            outs.append(run.top(x))
            phases.append("after" if was else "across" if state["added"] else "before")
            if n == hist["add_after"]:
                do_add()  # (the body that was to make the first add_destinations never got that far)
        do_add()
    fnlist = "; ".join(_show_fn(hist, j) for j in range(len(hist["fns"])))

    def desc(n):
        return "call %d of %d, made %s the first add_destinations of the process%s: %s [%s]" % (
            n + 1, len(calls), {"before": "before", "after": "after", "across": "across (its body makes)"}[phases[n]],
            ", inside an action of the caller" if calls[n]["parent"] else "", _show_node(calls[n]["node"]), fnlist)
    judged = run is not None
    # ---- transparency: same outcome as the undecorated functions, outcome objects are the bodies' own
    if judged:
        problems.extend(run.problems)
        if run.extra:
            problems.append(("result", "function bodies ran %d times more than they were called [%s]" % (run.extra, fnlist)))
        for n, x in enumerate(calls):
            ou, od = ref_outs[n], outs[n]
            rrec = run.rec.get(x["node"]["id"])
            if od[0] == "raise" and (rrec is None or rrec["out"] is None or od[1] is not rrec["out"][1]):
                problems.append(("unexpected-raise", "decorated call raised %r where the function %s: %s" % (
                    od[1], "returns" if ou[0] == "ret" else "raises " + repr(ou[1]), desc(n))))
            elif ou[0] != od[0]:
                problems.append(("acceptance", "undecorated call -> %s, decorated call -> %s (%r): %s" % (ou[0], od[0], od[1], desc(n))))
            elif od[0] == "ret" and (rrec is None or rrec["out"] is None or od[1] is not rrec["out"][1] or od[1] != ou[1]):
                problems.append(("result", "decorated call returned %r, not the body's result object (undecorated: %r): %s" % (od[1], ou[1], desc(n))))
            elif od[0] == "raise" and type(od[1]) is not type(ou[1]):
                problems.append(("unexpected-raise", "decorated call raised %r, undecorated %r: %s" % (od[1], ou[1], desc(n))))
        skel = lambda r: sorted((k, v["started"], v["out"] and v["out"][0], v["out"] and (v["out"][1] if v["out"][0] == "ret" else type(v["out"][1]).__name__))
                                for k, v in r.rec.items())
        if not problems and skel(ref) != skel(run):
            problems.append(("result", "the function bodies ran differently: undecorated (call id, body steps begun, outcome) %r, decorated %r [%s; calls %s]" % (
                skel(ref), skel(run), fnlist, [_show_node(x["node"]) for x in calls])))
        judged = not problems
    # ---- the logged actions, as the destinations of the first add_destinations received them
    msgs = [e["m"] for e in tape.entries if e["k"] == "msg" and e["m"].get("message_type") != "eliot:destination_failure"]
    in_startup_phase = True
    if run is not None and hist["prelude"]:
        if state["at_add"] and state["at_add"][0] == "c18:prelude" and msgs and msgs[0].get("message_type") == "c18:prelude":
            c["startup_histories_replayed_from_buffer"] = 1
            msgs = msgs[1:]
        else:
            # a plain message logged first did not come out of a start-up buffer: this process was not in its start-up phase (not judged)
            c["startup_histories_not_in_startup_phase"] = 1
            in_startup_phase = False
    summ = lambda m: (m.get("action_type") or m.get("message_type"), m.get("action_status"), m.get("c18_node"), m.get("c18_k"))
    pos = 0
    for n, x in enumerate(calls if judged and in_startup_phase else ()):
        seg = _startup_segment(hist, run, x, outs[n])
        got = msgs[pos: pos + len(seg)]
        if [summ(m) for m in got] != [s["sum"] for s in seg]:
            rest = [summ(m)[:2] for m in msgs[pos: pos + len(seg) + 3]]
            problems.append(("actions", "every decorated call logs exactly one action, and messages logged before the first add_destinations are "
                             "delivered to its destinations: expected (type, status) %r, the destinations received %r at that place of their log: %s"
                             % ([s["sum"][:2] for s in seg], rest, desc(n))))
            break
        pos += len(seg)
        for s, m in zip(seg, got):
            node = s.get("node")
            if s["parent"] is not None:
                a = got[s["parent"]]
                prefix = a["task_level"][:-1]
                lvl = m["task_level"]
                ok = m["task_uuid"] == a["task_uuid"] and (
                    (lvl[:-2] == prefix and len(lvl) == len(prefix) + 2) if s["kind"] in ("start", "astart") else lvl[:-1] == prefix)
                if not ok:
                    what = {"start": "the action of the nested decorated call", "astart": "an action started in the body", "aend": "the end of an action started in the body",
                            "msg": "a message logged in the body", "end": "the end message of the call's action", "pend": "the end of the caller's action"}[s["kind"]]
                    problems.append(("child", "%s %r is at task %s level %s: not a child of the action %r (task %s, start at level %s) it was logged in: %s" % (
                        what, summ(m)[0], m["task_uuid"][:8], lvl, summ(a)[0], a["task_uuid"][:8], a["task_level"], desc(n))))
                    break
            if s["kind"] == "start":
                f = hist["fns"][node["fn"]]
                want = dict(ref.rec[node["id"]]["bound"])  # as Python binds them: what the undecorated function saw on entry
                if "include_args" in f["opts"]:
                    want = {k: want[k] for k in f["opts"]["include_args"]}
                have = {k: v for k, v in m.items() if k not in META}
                if set(have) != set(want) or not all(same(have[k], want[k]) for k in want):
                    problems.append(("startfield", "start message of %s has fields %r, Python bound %r: %s" % (s["sum"][0], have, want, desc(n))))
                    break
            elif s["kind"] == "end":
                f = hist["fns"][node["fn"]]
                o = run.rec[node["id"]]["out"]
                have = {k: v for k, v in m.items() if k not in META}
                if o[0] == "ret":
                    if f["opts"].get("include_result", True):
                        if set(have) != {"result"} or not same(have["result"], o[1]):
                            problems.append(("resultfield", "end message of %s has fields %r, the call returned %r: %s" % (s["sum"][0], have, o[1], desc(n))))
                            break
                    elif have:
                        problems.append(("resultfield", "include_result=False, end message of %s has fields %r: %s" % (s["sum"][0], have, desc(n))))
                        break
                elif m.get("exception") != excs.qualname(type(o[1])):
                    problems.append(("actions", "end message of %s names exception %r, the call raised %r: %s" % (s["sum"][0], m.get("exception"), o[1], desc(n))))
                    break
        if problems:
            break
    else:
        if judged and in_startup_phase and pos != len(msgs):
            problems.append(("actions", "the destinations received %d messages %r that no call accounts for [%s; calls %s]" % (
                len(msgs) - pos, [summ(m)[:2] for m in msgs[pos: pos + 8]], fnlist, [_show_node(x["node"]) for x in calls])))
    # ---- accounting
    c["startup_histories"] = 1
    if run is not None:
        recs = run.rec
        depth = {}

        def depths(nd):
            depth[nd["id"]] = nd["depth"]
            for s in nd["steps"]:
                if s[0] == "call":
                    depths(s[1])
        for x in calls:
            depths(x["node"])
        sub["evals"] += len(recs)
        c["startup_calls_compared"] = len(recs)
        before = [k for k, v in recs.items() if v["entered_before_add"]]
        c["startup_calls_before_first_add"] = sum(1 for k in before if recs[k]["left_before_add"])
        c["startup_calls_across_first_add"] = sum(1 for k in before if recs[k]["left_before_add"] is False)
        c["startup_calls_after_first_add"] = len(recs) - len(before)
        c["startup_nested_calls_before_first_add"] = sum(1 for k in before if depth[k] > 0)
        c["startup_raising_calls_before_first_add"] = sum(1 for k in before if recs[k]["out"] and recs[k]["out"][0] == "raise")
        c["startup_body_messages_before_first_add"] = run.body_messages_before_add
        if hist["add_in_body"] and c["startup_calls_across_first_add"]:
            c["startup_first_add_made_inside_a_decorated_call"] = 1
        c["startup_messages_judged"] = pos
    sub["nontrivial"].append(h(["startup", [(f["flavour"], render_params(f["sig"]), sorted(f["opts"].items())) for f in hist["fns"]],
                                [[_shape(x["node"]), x["parent"]] for x in calls], hist["add_after"], hist["add_in_body"], hist["prelude"]]))
    sub["sample"] = {"part": "startup", "functions": [_show_fn(hist, j) for j in range(len(hist["fns"]))],
                     "calls_before_first_add_destinations": [_show_node(x["node"]) for x in calls[:hist["add_after"]]],
                     "calls_after": [_show_node(x["node"]) for x in calls[hist["add_after"]:]],
                     "first_add_destinations_made_by_a_body": hist["add_in_body"], "messages_received": len(msgs)}
    seen = set()
    for clause, text in problems:
        if clause in seen:
            continue
        seen.add(clause)
        sub["violations"].append({"msg": "[startup:%s] %s" % (clause, text), "mech": None,
                                  "detail": {"case": i, "part": "startup", "clause": clause, "functions": [_show_fn(hist, j) for j in range(len(hist["fns"]))],
                                             "calls": [_show_node(x["node"]) for x in calls], "first_add_destinations_after_call": hist["add_after"],
                                             "first_add_destinations_made_by_a_body": hist["add_in_body"],
                                             "received": [list(summ(m)[:2]) + [m.get("task_uuid", "")[:6], m.get("task_level")] for m in msgs[:40]]}})
    return sub


def part_startup(spec, res):
    """Every history in a fresh fork of this process, which (like its parent, the runner) has never added a destination."""
    from vf.forkrun import call_in_fork
    for i in range(spec["lo"], spec["hi"]):
        rng = random.Random("%s:C18:startup:%d" % (spec["seed"], i))
        hist = gen_startup_history(rng)
        kind, sub = call_in_fork(lambda: startup_child(hist, i), timeout=120)
        if kind == "timeout":
            res["inconclusive"] = "start-up history exceeded its watchdog"
            continue
        if kind != "ok":
            res["evals"] += 1
            res["violations"].append({"msg": "[startup] running the history failed: %s" % kind, "mech": None,
                                      "detail": {"part": "startup", "case": i, "output": str(sub)[-1500:]}})
            continue
        res["evals"] += sub["evals"]
        res["nontrivial"].extend(sub["nontrivial"])
        for k, v in sub["counters"].items():
            res["counters"][k] = res["counters"].get(k, 0) + v
        if len(res["violations"]) < 5:
            res["violations"].extend(sub["violations"])
        if res["sample"] is None and sub.get("sample"):
            res["sample"] = sub["sample"]


def run_case(spec):
    res = {"evals": 0, "nontrivial": [], "counters": {}, "violations": [], "sample": None, "sets": {"special_names_used": []}}
    import io
    from eliot import FileDestination
    if spec.get("part") == "startup":
        part_startup(spec, res)  # adds no destination in this process: every history runs in a fork of it
        return res
    tape = Tape()
    rec = Recorder(tape, "rec", deep=False)
    filedest = FileDestination(file=io.BytesIO())  # a real JSON-encoding destination sees every argument and result too
    add_destinations(rec, filedest)
    try:
        for i in range(spec["lo"], spec["hi"]):
            one(spec["seed"], i, res, tape)
            if i % 40 == 0:
                layers(spec["seed"], i, res, tape)
    finally:
        remove_destination(rec)
        remove_destination(filedest)
    return res


def finalize(agg, tier):
    if agg["counters"].get("calls_compared", 0) < 2000:
        return "fewer than 2000 calls compared"
    if agg["counters"].get("methods_returning_the_object_they_were_called_on", 0) < 100 or agg["counters"].get("bodies_recording_their_own_result_field", 0) < 100:
        return "fewer than 100 methods returned the object they were called on / bodies recorded a result field of their own"
    for k in ("layers_calls_through_log_call_on_log_call", "layers_calls_through_log_call_on_plain_wrapper_of_log_call",
              "layers_calls_after_default_logger_replaced"):
        if not agg["counters"].get(k, 0):
            return "part 'layers' never reached: " + k
    if ENABLE_STARTUP:
        for k in ("startup_calls_before_first_add", "startup_histories_replayed_from_buffer", "startup_nested_calls_before_first_add",
                  "startup_raising_calls_before_first_add", "startup_body_messages_before_first_add", "startup_calls_across_first_add",
                  "startup_calls_after_first_add"):
            if not agg["counters"].get(k, 0):
                return "part 'startup' never reached: " + k
        if agg["counters"].get("startup_histories_not_in_startup_phase", 0):
            return "part 'startup': %d histories ran in a process that was not in its start-up phase" % agg["counters"]["startup_histories_not_in_startup_phase"]
    return None
