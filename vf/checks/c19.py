"""C19 - ThreadedWriter: producer/consumer history checker under line-granular schedules (Twisted stubbed)."""

from vf import sched, twisted_stub

sched.install()  # before eliot is imported
twisted_stub.install()

import itertools
import random
import sys
import threading
import warnings
import _thread

import eliot
from eliot import logwriter

from vf import excs
from vf.runner import h
from vf.tape import Tape

ID = "C19"
LEVEL = "exploration"
RULE = ("a ThreadedWriter around a recording destination (with a failure mask over its calls) is driven by a controller thread "
        "(startService ... stopService, 1-3 cycles) and 1-3 producer threads offering uniquely numbered messages, with stop issued "
        "either after the producers are done or concurrently with them, under the line-granular scheduler (LINE events on "
        "eliot/logwriter.py; queue, thread start and join are scheduler-aware; the reader and the join helper threads are registered "
        "dynamically): for sampled priority orders ALL one-preemption schedules plus sampled 2-3-preemption ones. History oracle: every "
        "message whose offer returned before stopService was called is passed to the wrapped destination exactly once and before "
        "stopService's result completes; nothing is passed twice; per-producer order and real-time order of non-overlapping offers "
        "are kept; all writes of a cycle happen on one thread that is none of the callers; a destination exception loses only that "
        "message; in part of the runs the wrapped destination itself offers a message from inside its call (never handled re-entrantly, "
        "queued behind everything offered before); with a stalled destination (logical clock) further offers never wait; messages buffered by eliot before any destination existed are handed to the writer by startService itself and written first; a redundant stopService() "
        "(not running) raises ValueError and leaves nothing behind for the next cycle; part 'signals' (forked child, OS scheduling): an interval "
        "timer's handler offers messages on the thread that is itself offering 30 000 messages - no offer blocks, both sequences are written in order; two fifths of the messages are dict subclasses whose == answers "
        "True to anything or only works against mappings, half of the destination failures carry unhashable arguments; part 'nostderr' (forked child, OS scheduling): the process has no usable standard error stream (sys.stderr a closed file, fd 2 closed, fd 2 a pipe without reader, sys.stderr None) while the wrapped destination raises for some of the messages offered by one or two threads over 1-2 cycles - every message is still passed to the destination exactly once, in order, on one foreign thread, before stopService's result completes. part 'fork' (OS scheduling): the writer is carried over an os.fork() - constructed in the parent and started only in the child (the daemonising-launcher order), "
        "constructed, run through a whole start/stop cycle, then forked and started again in the child, constructed before the fork and then started and used independently in both processes, "
        "or started in the parent and forked while running - and 1-2 threads offer messages over 1-2 cycles in each process; the wrapped destination holds the first message "
        "until everything has been offered (a slow write) and notes any call that begins while another has not returned: every message offered in a process between its "
        "startService and stopService is passed exactly once, in order, on one thread that is not a caller's, never two at a time, before stopService's result completes "
        "(for the copy of a running writer in a forked child, whose writer thread does not exist there, only: at most once, in order, on at most one foreign thread, and nothing that the parent was offered). "
        "part 'launcher' (OS scheduling, really forked processes; every thread started through threading.Thread is kept in a ledger by object): a daemonising launcher builds the writer, "
        "forks once or twice, and only the surviving (grand)child runs 1-3 startService/offer/stopService cycles (1-2 offering threads, in part through eliot's Logger), or the parent forks while "
        "its writer is running and the child uses only a new writer it builds itself while the parent goes on with its own; the wrapped destination is slow on selected messages: such a write "
        "lasts until the thread that offered the message has offered its next one (an event) and a short while longer, and any call that begins while another has not returned is noted - "
        "every message is passed exactly once, each producer's in order (begin and end of the writes), all of a cycle on one thread that is not a caller's, never two at a time; stopService's "
        "result completes, at the latest 10 s after the destination has returned for every message offered before it, and not before; once it has completed no thread that the writer started "
        "is still running 3 s later (watchdog expiries without such an observation are INCONCLUSIVE). "
        "non-trivial = schedule whose preemption fired in logwriter.py or with stop concurrent to offers; distinct by "
        "interleaving hash" " part 'oddmessages' (real OS threads): the messages offered include falsy but legal values (empty dict / bytes / text, an empty mapping subclass, 0, [], ()) and the wrapped destination raises I/O errors of every flavour on selected messages, among them BlockingIOError, InterruptedError and OSError(EAGAIN): every message offered before stopService is passed to the destination exactly once, in order.")
ASSUMPTIONS = ["twisted is not installed: Service and deferToThreadPool are the stand-ins of vf/twisted_stub.py, which reproduce only the two "
               "behaviours ThreadedWriter relies on", "messages offered concurrently with stopService are only required to be written at most once"]
EXHAUSTIVE_NOTE = "all one-preemption schedules for each explored priority order"
CASE_TIMEOUT = 900


def plan(tier, seed):
    n = 32 if tier == "quick" else 250
    specs = [{"seed": seed, "i": i, "tier": tier} for i in range(n)]
    specs += [{"seed": seed, "i": i, "tier": tier, "backlog": True} for i in range(4 if tier == "quick" else 12)]
    specs += [{"seed": seed, "i": i, "tier": tier, "slow": True} for i in range(4 if tier == "quick" else 24)]
    specs += [{"seed": seed, "i": i, "tier": tier, "signals": True} for i in range(4 if tier == "quick" else 12)]
    specs += [{"seed": seed, "i": i, "tier": tier, "nostderr": True} for i in range(5 if tier == "quick" else 40)]
    specs += [{"seed": seed, "i": i, "tier": tier, "fork": True} for i in range(8 if tier == "quick" else 60)]
    specs += [{"seed": seed, "i": i, "tier": tier, "launcher": True} for i in range(9 if tier == "quick" else 90)]
    specs += [{"seed": seed, "i": i, "tier": tier, "oddmessages": True} for i in range(6 if tier == "quick" else 60)]
    return specs


class EqAllMessage(dict):
    """A message object whose == answers True to everything (a permissive value object)."""

    def __eq__(self, other):
        return True

    def __ne__(self, other):
        return False

    __hash__ = None


class EqRaiseMessage(dict):
    """A message object whose == only works against mappings."""

    def __eq__(self, other):
        return dict(self) == dict(other.items())

    __hash__ = None


def make_message(p, s, cyc):
    m = {"p": p, "seq": s, "cyc": cyc}
    k = (p * 7 + s * 3 + cyc) % 5
    if k == 1:
        return EqAllMessage(m)
    if k == 3:
        return EqRaiseMessage(m)
    return m


RUNS = [0]


def run_once(plan_, nprod, nmsg, cycles, concurrent_stop, failmask, second_writer=False, slow=False, nested=False, stray=0, prebuffer=0):
    tape = Tape()
    calls = [0]
    release = [not slow]
    depth = [0]
    nested_problems = []

    def dest(msg):
        depth[0] += 1
        try:
            if depth[0] > 1:
                nested_problems.append("the wrapped destination was called for %r while its call for another message was still in progress" % (
                    (msg["p"], msg["seq"], msg["cyc"]),))
            return dest_(msg)
        finally:
            depth[0] -= 1

    def dest_(msg):
        if not release[0]:
            # an arbitrarily slow destination: stalls until the 'clock' thread, whose sleep outlasts every timeout in the
            # code under test, lets it go on
            sched.wait_until(lambda: release[0])
        i = calls[0]
        calls[0] += 1
        if msg.get("w"):
            tape.add("foreign_write", p=msg["p"], ms=msg["seq"])  # a message offered to the OTHER writer arrived here
        tape.add("write", p=msg["p"], ms=msg["seq"], cyc=msg["cyc"], ident=_thread.get_ident(), call=i)
        if nested and msg["p"] == 0 and msg["seq"] == 0:
            # a destination that logs while it handles a message (its own diagnostics go through eliot and come back to the
            # writer): that message is offered from the writer's own thread and queues up behind everything offered before
            tape.add("offer_call", p="X", ms=0, cyc=msg["cyc"])
            writer({"p": "X", "seq": 0, "cyc": msg["cyc"]})
            tape.add("offer_ret", p="X", ms=0, cyc=msg["cyc"])
        if i in failmask:
            if i % 2:
                raise excs.DestFault("wrapped destination fails on call %d" % i, {"affected": dict(msg)}, [i])  # unhashable arguments
            raise excs.DestFault("wrapped destination fails on call %d" % i)

    other_got = []

    def other_dest(msg):
        other_got.append((msg.get("w"), msg["p"], msg["seq"], msg["cyc"]))

    with warnings.catch_warnings():
        warnings.simplefilter("ignore")
        writer = logwriter.ThreadedWriter(dest, twisted_stub.Reactor())
        other = logwriter.ThreadedWriter(other_dest, twisted_stub.Reactor()) if second_writer else None
    state = {"cycle": -1, "started": False, "done": [0] * (cycles + 1)}
    idents = {}
    problems = []

    def stray_stop(when):
        # a redundant stopService() (never started, or stopped already) raises ValueError and must leave nothing behind
        try:
            with warnings.catch_warnings():
                warnings.simplefilter("ignore")
                writer.stopService()
            problems.append("stopService() on a writer that is not running (%s) did not raise" % when)
        except ValueError:
            tape.add("stray_stop", when=when)
        except BaseException as e:
            problems.append("stopService() on a writer that is not running (%s) raised %r" % (when, e))

    def controller():
        idents["S"] = _thread.get_ident()
        first_run = RUNS[0] == 0
        RUNS[0] += 1
        if prebuffer and first_run:
            # (only in the first schedule of this process: afterwards eliot no longer buffers)
            # messages logged through eliot before any destination exists are buffered; the writer, registered first, is offered
            # them by startService itself and has to write them like any other
            for k in range(prebuffer):
                tape.add("offer_call", p="pre", ms=k, cyc=0)
                eliot.Logger().write({"p": "pre", "seq": k, "cyc": 0})
                tape.add("offer_ret", p="pre", ms=k, cyc=0)
        for cyc in range(cycles):
            if stray and (cyc + stray) % 2 == 0:
                stray_stop("before cycle %d" % cyc)
            with warnings.catch_warnings():
                warnings.simplefilter("ignore")
                tape.add("start_call", cyc=cyc)
                writer.startService()
                if other is not None:
                    other.startService()
            tape.add("start_ret", cyc=cyc)
            state["cycle"] = cyc
            state["started"] = True
            sched.notify()
            if not concurrent_stop:
                sched.wait_until(lambda: state["done"][cyc] == nprod)
            state["started"] = False
            tape.add("stop_call", cyc=cyc)
            with warnings.catch_warnings():
                warnings.simplefilter("ignore")
                handle = writer.stopService()
            tape.add("stop_ret", cyc=cyc)
            handle.wait()
            tape.add("stop_done", cyc=cyc)
            if other is not None:
                with warnings.catch_warnings():
                    warnings.simplefilter("ignore")
                    other.stopService().wait()
            if concurrent_stop:
                sched.wait_until(lambda: state["done"][cyc] == nprod)
        state["cycle"] = cycles
        sched.notify()

    def producer(p):
        def run():
            idents["P%d" % p] = _thread.get_ident()
            for cyc in range(cycles):
                sched.wait_until(lambda: state["cycle"] >= cyc)
                for s in range(nmsg):
                    if other is not None:
                        other({"p": p, "seq": s, "cyc": cyc, "w": 1})  # a second, independent writer is in use at the same time
                    tape.add("offer_call", p=p, ms=s, cyc=cyc)
                    writer(make_message(p, s, cyc))
                    tape.add("offer_ret", p=p, ms=s, cyc=cyc)
                state["done"][cyc] += 1
                sched.notify()
        return run

    workers = {"S": controller}
    for p in range(nprod):
        workers["P%d" % p] = producer(p)
    if slow:
        def clock():
            sched.sleep()
            release[0] = True
            sched.notify()
        workers["K"] = clock
    st, errs = sched.run_schedule(plan_, workers, timeout=90.0)
    for n, e in errs.items():
        problems.append("thread %s raised %r" % (n, e))
    problems.extend(nested_problems[:2])
    if not st["aborted"]:
        if tape.events("foreign_write"):
            problems.append("a message offered to one ThreadedWriter was passed to another writer's destination")
        if other is not None:
            want = sorted((1, p, s, c) for p in range(nprod) for s in range(nmsg) for c in range(cycles))
            if any(x[0] != 1 for x in other_got):
                problems.append("the second writer's destination received messages offered to the first writer")
            elif not concurrent_stop and sorted(other_got) != want:
                problems.append("the second writer wrote %d of the %d messages offered to it" % (len(other_got), len(want)))
    return st, tape, idents, problems


def judge(tape, idents, nprod, nmsg, cycles, failmask, problems):
    ev = tape.entries
    idx = {id(e): i for i, e in enumerate(ev)}
    writes = [e for e in ev if e["k"] == "write"]
    seen = {}
    for w in writes:
        key = (w["p"], w["ms"], w["cyc"])
        if key in seen:
            problems.append("message %s was passed to the wrapped destination twice" % (key,))
        seen[key] = idx[id(w)]
    caller_idents = set(idents.values())
    for cyc in range(cycles):
        stop_call = next((idx[id(e)] for e in ev if e["k"] == "stop_call" and e["cyc"] == cyc), None)
        stop_done = next((idx[id(e)] for e in ev if e["k"] == "stop_done" and e["cyc"] == cyc), None)
        if stop_call is None or stop_done is None:
            problems.append("cycle %d: stopService was not called / did not complete" % cyc)
            continue
        for e in ev:
            if e["k"] == "offer_ret" and e["cyc"] == cyc and idx[id(e)] < stop_call:
                key = (e["p"], e["ms"], cyc)
                if key not in seen:
                    problems.append("message %s was offered (call returned) before stopService but never written" % (key,))
                elif seen[key] > stop_done:
                    problems.append("message %s was written only after stopService's result had completed" % (key,))
        # one foreign thread per cycle; cycle = writes between this start and this stop_done (late stragglers judged by at-most-once only)
        start_ret = next(idx[id(e)] for e in ev if e["k"] == "start_call" and e["cyc"] == cyc)
        cw = [w for w in writes if start_ret <= idx[id(w)] <= stop_done]
        ids = set(w["ident"] for w in cw)
        if len(ids) > 1:
            problems.append("cycle %d: writes happened on %d different threads" % (cyc, len(ids)))
        if ids & caller_idents:
            problems.append("cycle %d: the wrapped destination was called on a caller's thread" % cyc)
    # order: per producer, and real-time order of non-overlapping offers
    offers_ret = {(e["p"], e["ms"], e["cyc"]): idx[id(e)] for e in ev if e["k"] == "offer_ret"}
    offers_call = {(e["p"], e["ms"], e["cyc"]): idx[id(e)] for e in ev if e["k"] == "offer_call"}
    keys = sorted(seen, key=lambda k: seen[k])
    for a, b in itertools.combinations(keys, 2):
        # a written before b: b's offer must not have returned before a's offer was called
        if b in offers_ret and a in offers_call and offers_ret[b] < offers_call[a]:
            problems.append("message %s was offered strictly before %s but written after it" % (b, a))
            break
    for p in range(nprod):
        got = [(k[2], k[1]) for k in keys if k[0] == p]
        if got != sorted(got):
            problems.append("producer %d's messages were written out of order: %s" % (p, got))
    # a destination exception loses only that message: later calls still happen (covered by the exactly-once clause above)
    return len(writes)


def run_backlog(spec, res):
    """'so logging does not block on slow output': with the writer thread starved (lowest priority, i.e. an arbitrarily slow
    destination), a producer must be able to hand over any number of messages without ever having to wait for it."""
    rng = random.Random("%s:C19:backlog:%d" % (spec["seed"], spec["i"]))
    nmsg = rng.choice([1100, 1500, 2300])
    names = ["P0", "S", "dyn1", "dyn2"]
    st, tape, idents, problems = run_once({"order": names, "changes": []}, 1, nmsg, 1, False, set())
    res["evals"] += 1
    res["counters"]["backlog_runs"] = res["counters"].get("backlog_runs", 0) + 1
    res["counters"]["backlog_messages"] = res["counters"].get("backlog_messages", 0) + nmsg
    if st["deadlock"]:
        problems.append("writer threads deadlocked: %s" % st["deadlock"])
    elif st["aborted"]:
        res["inconclusive"] = "backlog schedule abandoned: %s" % st["aborted"]
        return
    else:
        waits = [w for t, w in st["blocked"] if t == "P0" and w != "wait"]
        if waits:
            problems.append("offering a message made the caller wait (%s) while the writer thread was not running: with a backlog of up to %d messages "
                            "logging blocks on slow output" % (waits[0], nmsg))
        judge(tape, idents, 1, nmsg, 1, set(), problems)
    res["nontrivial"].append(h(["backlog", nmsg]))
    res["nontrivial"].append(h(["backlog-run", spec["i"]]))
    if problems:
        res["violations"].append({"msg": problems[0], "mech": None, "detail": {"part": "backlog", "messages": nmsg, "problems": problems[:4]}})


def run_signals(spec, res):
    """A signal handler that logs: while the main thread offers messages in a loop, an interval timer's handler offers further
    ones on the same thread, possibly in the middle of an offer. Run in a forked child with OS scheduling; offering never blocks."""
    import json
    import os
    import signal
    import time
    n = 30000
    r, w = os.pipe()
    pid = os.fork()
    if pid == 0:
        code = 0
        try:
            os.close(r)
            got = []
            with warnings.catch_warnings():
                warnings.simplefilter("ignore")
                writer = logwriter.ThreadedWriter(got.append, twisted_stub.Reactor())
                writer.startService()
            progress = [0]
            extra = [0]

            def handler(sig, frame):
                if extra[0] < 3000:
                    k = extra[0]
                    extra[0] += 1
                    writer({"p": "sig", "seq": k})

            def watchdog():
                last = -1
                while True:
                    time.sleep(30)
                    if progress[0] == last:
                        os._exit(17)  # no offer returned for 30 s: the offering thread is blocked for good
                    last = progress[0]
            sched._real_Thread(target=watchdog, daemon=True).start()
            signal.signal(signal.SIGALRM, handler)
            signal.setitimer(signal.ITIMER_REAL, 0.0003, 0.0003)
            for s_ in range(n):
                writer({"p": "main", "seq": s_})
                progress[0] += 1
            signal.setitimer(signal.ITIMER_REAL, 0, 0)
            with warnings.catch_warnings():
                warnings.simplefilter("ignore")
                writer.stopService().wait()
            progress[0] += 1
            main_seq = [m["seq"] for m in got if m["p"] == "main"]
            sig_seq = [m["seq"] for m in got if m["p"] == "sig"]
            os.write(w, json.dumps({"main_ok": main_seq == list(range(n)), "sig_ok": sorted(sig_seq) == list(range(extra[0])),  # (handler invocations may nest: exactly once, any order)
                                    "signals": extra[0],
                                    "written": len(got)}).encode())
        except BaseException as e:
            try:
                os.write(w, json.dumps({"error": repr(e)}).encode())
            except BaseException:
                pass
            code = 3
        finally:
            os._exit(code)
    os.close(w)
    data = b""
    while True:
        b = os.read(r, 65536)
        if not b:
            break
        data += b
    os.close(r)
    _, status = os.waitpid(pid, 0)
    problems = []
    if os.WIFEXITED(status) and os.WEXITSTATUS(status) == 17:
        problems.append("offering messages from a signal handler while the same thread is offering: no offer returned for 30 s (the thread blocks on itself)")
    elif not data:
        res["inconclusive"] = "signal child ended with status %r and no report" % (status,)
    else:
        rep = json.loads(data.decode())
        if rep.get("error"):
            problems.append("signal scenario raised %s" % rep["error"])
        elif not rep["main_ok"] or not rep["sig_ok"]:
            problems.append("messages offered by the main thread / by its signal handler were not written exactly once (main thread's: in order): %r" % (rep,))
        res["counters"]["offers_from_signal_handlers"] = res["counters"].get("offers_from_signal_handlers", 0) + rep.get("signals", 0)
    res["evals"] += 1
    res["counters"]["signal_runs"] = res["counters"].get("signal_runs", 0) + 1
    res["nontrivial"].append(h(["signals", spec["i"]]))
    if problems:
        res["violations"].append({"msg": problems[0], "mech": None, "detail": {"part": "signals", "problems": problems}})

STDERR_STATES = ["closed_file", "closed_fd", "broken_pipe", "closed_file_and_fd", "none"]


def _break_stderr(state):
    """Put the (forked, throw-away) process into a state in which nothing can be written to standard error."""
    import os
    import sys
    if state in ("closed_file", "closed_file_and_fd"):
        f = open(os.devnull, "w")
        f.close()
        sys.stderr = f
        if state == "closed_file_and_fd":
            try:
                os.close(2)
            except OSError:
                pass
    elif state == "closed_fd":
        # a daemonised process: the stream object is there, the descriptor under it is gone
        sys.stderr = os.fdopen(2, "w", buffering=1, closefd=False)
        os.close(2)
    elif state == "broken_pipe":
        # stderr was a pipe to a supervisor that went away
        r, w = os.pipe()
        os.close(r)
        os.dup2(w, 2)
        os.close(w)
        sys.stderr = os.fdopen(2, "w", buffering=1, closefd=False)
    elif state == "none":
        sys.stderr = None  # pythonw-style
    sys.__stderr__ = sys.stderr


def run_nostderr(spec, res):
    """'An exception from the wrapped destination loses only that message and does not stop the writer' - also in a process
    that has no usable standard error stream. Forked child, OS scheduling; the parent judges the history the child reports."""
    import json
    import os
    import select
    import signal
    import time
    rng = random.Random("%s:C19:nostderr:%d" % (spec["seed"], spec["i"]))
    state = STDERR_STATES[spec["i"] % len(STDERR_STATES)]
    nprod = rng.choice([1, 1, 2])
    nmsg = rng.choice([4, 6, 12, 40])
    cycles = rng.choice([1, 1, 2])
    keys = [(p, s_, c_) for c_ in range(cycles) for p in range(nprod) for s_ in range(nmsg)]
    failing = set(k for k in keys if rng.random() < 0.35)
    if not failing:
        failing.add(keys[rng.randrange(len(keys))])
    if keys[-1] in failing and len(keys) > 1:
        failing.discard(keys[-1])  # at least one message follows a failure
        failing.add(keys[0])
    kinds = [rng.choice(["oserror", "destfault", "unhashable", "value", "unicode"]) for _ in keys]
    kind_of = dict(zip(keys, kinds))
    r, w = os.pipe()
    pid = os.fork()
    if pid == 0:
        code = 0
        try:
            os.close(r)
            calls = []  # (p, seq, cyc, thread number), recorded on entry of the wrapped destination
            threads = []  # thread objects seen, kept alive: their position is a name that is never reused (OS thread idents are)

            def me():
                import threading
                t = threading.current_thread()
                for k, x in enumerate(threads):
                    if x is t:
                        return k
                threads.append(t)
                return threads.index(t)

            def dest(msg):
                key = (msg["p"], msg["seq"], msg["cyc"])
                calls.append(key + (me(),))
                if key in failing:
                    kind = kind_of[key]
                    if kind == "oserror":
                        raise OSError(28, "No space left on device")
                    if kind == "destfault":
                        raise excs.DestFault("wrapped destination fails for %r" % (key,))
                    if kind == "unhashable":
                        raise excs.DestFault("wrapped destination fails", {"affected": dict(msg)}, [key])
                    if kind == "value":
                        raise ValueError("I/O operation on closed file.")
                    "\udcff".encode("utf-8")  # UnicodeEncodeError

            _break_stderr(state)
            with warnings.catch_warnings():
                warnings.simplefilter("ignore")
                writer = logwriter.ThreadedWriter(dest, twisted_stub.Reactor())
            callers = [me()]
            completed = []
            for cyc in range(cycles):
                with warnings.catch_warnings():
                    warnings.simplefilter("ignore")
                    writer.startService()

                def offer(p, cyc=cyc):
                    if p:
                        callers.append(me())
                    for s_ in range(nmsg):
                        writer(make_message(p, s_, cyc))
                others = [sched._real_Thread(target=offer, args=(p,), daemon=True) for p in range(1, nprod)]
                for t in others:
                    t.start()
                offer(0)
                for t in others:
                    t.join()
                with warnings.catch_warnings():
                    warnings.simplefilter("ignore")
                    writer.stopService().wait()
                completed.append(len(calls))  # how many destination calls had been made when stopService's result completed
            os.write(w, json.dumps({"calls": calls, "callers": callers, "completed": completed}).encode())
        except BaseException as e:
            try:
                os.write(w, json.dumps({"error": repr(e)}).encode())
            except BaseException:
                pass
            code = 3
        finally:
            os._exit(code)
    os.close(w)
    data = b""
    deadline = time.monotonic() + 120
    timed_out = False
    while True:
        left = deadline - time.monotonic()
        if left <= 0 or not select.select([r], [], [], left)[0]:
            timed_out = True
            break
        b = os.read(r, 65536)
        if not b:
            break
        data += b
    os.close(r)
    if timed_out:
        try:
            os.kill(pid, signal.SIGKILL)
        except OSError:
            pass
    _, status = os.waitpid(pid, 0)
    problems = []
    res["evals"] += 1
    c = res["counters"]
    if timed_out:
        res["inconclusive"] = "child without a usable stderr (%s) did not report within 120 s" % state
        return
    if not data:
        res["inconclusive"] = "child without a usable stderr (%s) ended with status %r and no report" % (state, status)
        return
    rep = json.loads(data.decode())
    if rep.get("error"):
        problems.append("with stderr %s: the caller's side raised %s" % (state, rep["error"]))
    else:
        calls = [tuple(x) for x in rep["calls"]]
        got = [x[:3] for x in calls]
        count = {}
        for k in got:
            count[k] = count.get(k, 0) + 1
        twice = sorted(k for k in count if count[k] > 1)
        if twice:
            problems.append("message %s was passed to the wrapped destination %d times" % (twice[0], count[twice[0]]))
        for cyc in range(cycles):
            # everything of this cycle was offered (the offers returned) before its stopService was called
            seen_by_stop = set(got[:rep["completed"][cyc]])
            missing = [k for k in keys if k[2] == cyc and k not in count]
            late = [k for k in keys if k[2] == cyc and k in count and k not in seen_by_stop]
            if missing:
                before = [k for k in got if k in failing and k[2] == cyc]
                problems.append("process without a usable stderr (%s): %d of the %d messages offered in cycle %d were never passed to the wrapped destination "
                                "although stopService's result completed, first %s (the destination raised for %s; calls made: %d)" % (
                                    state, len(missing), nprod * nmsg, cyc, missing[0], before[:3], len(got)))
            elif late:
                problems.append("message %s was written only after stopService's result had completed (stderr %s)" % (late[0], state))
            idents = set(x[3] for x in calls if x[2] == cyc)
            if len(idents) > 1:
                problems.append("cycle %d: writes happened on %d different threads" % (cyc, len(idents)))
            if idents & set(rep["callers"]):
                problems.append("cycle %d: the wrapped destination was called on a caller's thread" % cyc)
        for p in range(nprod):
            seq = [(k[2], k[1]) for k in got if k[0] == p]
            if seq != sorted(seq):
                problems.append("producer %d's messages were passed out of order: %s" % (p, seq[:12]))
        c["nostderr_destination_faults_fired"] = c.get("nostderr_destination_faults_fired", 0) + sum(1 for k in got if k in failing)
        c["nostderr_calls_after_a_fault"] = c.get("nostderr_calls_after_a_fault", 0) + sum(
            1 for i, k in enumerate(got) if any(j in failing for j in got[:i]))
    c["nostderr_runs"] = c.get("nostderr_runs", 0) + 1
    c["nostderr_" + state] = c.get("nostderr_" + state, 0) + 1
    res["nontrivial"].append(h(["nostderr", state, nprod, nmsg, cycles, sorted(failing)]))
    if problems:
        res["violations"].append({"msg": problems[0], "mech": None,
                                  "detail": {"part": "nostderr", "stderr": state, "producers": nprod, "messages_each": nmsg, "cycles": cycles,
                                             "failing": sorted(failing)[:20], "problems": problems[:4], "calls": rep.get("calls", [])[:40]}})


FORK_SCENARIOS = ["construct_fork_start", "cycle_fork_start", "construct_fork_both", "start_fork_both"]


class ForkRecorder(object):
    """The wrapped destination of part 'fork'. Lock-free on purpose (it is copied by fork() while other threads may be inside it)."""

    def __init__(self, failing, grace):
        import threading
        self.failing = failing
        self.grace = grace
        self.calls = []     # [tag, p, seq, cyc, thread number] on entry
        self.done = []      # [tag, p, seq, cyc] when the call is over
        self.overlaps = []  # [key that began, key whose call had not returned]
        self.inside = []
        self.threads = []   # thread objects seen, kept alive: position = a name that is never reused
        self.gate_key = None
        self.all_offered = threading.Event()
        self.overlap_seen = threading.Event()

    def reset(self):
        import threading
        self.calls, self.done, self.overlaps, self.inside = [], [], [], []
        self.all_offered = threading.Event()
        self.overlap_seen = threading.Event()

    def me(self):
        import threading
        t = threading.current_thread()
        for k, x in enumerate(self.threads):
            if x is t:
                return k
        self.threads.append(t)
        return self.threads.index(t)

    def __call__(self, msg):
        key = [msg["tag"], msg["p"], msg["seq"], msg["cyc"]]
        if self.inside:
            self.overlaps.append([key, list(self.inside[-1])])
            self.overlap_seen.set()
        self.inside.append(key)
        self.calls.append(key + [self.me()])
        try:
            if key == self.gate_key:
                # a slow write: lasts until everything of the cycle has been offered, then a little longer (a second writing
                # thread, if there is one, shows up in the meantime; a late one can only go unnoticed)
                self.all_offered.wait(30)
                self.overlap_seen.wait(self.grace)
            if tuple(key) in self.failing:
                raise excs.DestFault("wrapped destination fails for %r" % (key,))
        finally:
            self.inside.remove(key)
            self.done.append(key)


def _fork_use(writer, rec, tag, nprod, nmsg, cycles, running, reset):
    """Drive the writer in the current process: `cycles` times (startService unless it is `running` already), offers from nprod
    threads, stopService and wait for its result. -> report"""
    if reset:
        rec.reset()
    callers = [rec.me()]
    completed = []
    unfinished = None
    for cyc in range(cycles):
        rec.gate_key = [tag, 0, 0, 0] if cyc == 0 else None
        rec.all_offered.clear()
        with warnings.catch_warnings():
            warnings.simplefilter("ignore")
            if not (running and cyc == 0):
                writer.startService()

        def offer(p, cyc=cyc):
            if p:
                callers.append(rec.me())
            for s_ in range(nmsg):
                writer({"tag": tag, "p": p, "seq": s_, "cyc": cyc})
        others = [sched._real_Thread(target=offer, args=(p,), daemon=True) for p in range(1, nprod)]
        for t in others:
            t.start()
        offer(0)
        for t in others:
            t.join()
        rec.all_offered.set()
        with warnings.catch_warnings():
            warnings.simplefilter("ignore")
            handle = writer.stopService()
        for _ in range(240):
            handle.thread.join(0.25)
            if handle.finished or (_ >= 8 and (rec.overlaps or len(set(c_[4] for c_ in rec.calls)) > 1)):
                break
        if not handle.finished:
            unfinished = cyc
            break
        completed.append(len(rec.done))
    return {"calls": list(rec.calls), "done": list(rec.done), "overlaps": list(rec.overlaps), "callers": callers, "completed": completed,
            "unfinished": unfinished}


def _fork_judge(rep, where, tag, keys, cycles, full, failing, problems):
    """-> reason for inconclusive or None. keys: [tag, p, seq, cyc] offered in this process, in offer order per producer."""
    if rep.get("error"):
        problems.append("%s: the caller's side raised %s" % (where, rep["error"]))
        return None
    calls = [tuple(x) for x in rep["calls"]]
    got = [x[:4] for x in calls]
    done = [tuple(x) for x in rep["done"]]
    for a, b in rep["overlaps"][:2]:
        problems.append("%s: message %s was passed to the wrapped destination while its call for message %s had not returned (two threads are writing)"
                        % (where, tuple(a), tuple(b)))
    count = {}
    for k in got:
        count[k] = count.get(k, 0) + 1
    twice = sorted(k for k in count if count[k] > 1)
    if twice:
        problems.append("%s: message %s was passed to the wrapped destination %d times" % (where, twice[0], count[twice[0]]))
    foreign = [k for k in got if k[0] != tag]
    if foreign:
        problems.append("%s: message %s, offered in the other process, was passed to the destination here" % (where, foreign[0]))
    for cyc in range(cycles):
        idents = set(x[4] for x in calls if x[3] == cyc)
        if len(idents) > 1:
            problems.append("%s: cycle %d: the wrapped destination was called on %d different threads" % (where, cyc, len(idents)))
        if idents & set(rep["callers"]):
            problems.append("%s: cycle %d: the wrapped destination was called on a caller's thread" % (where, cyc))
    for p in sorted(set(k[1] for k in keys), key=str):
        seq = [(k[3], k[2]) for k in got if k[1] == p and k[0] == tag]
        if seq != sorted(seq):
            problems.append("%s: producer %s's messages were passed out of order: %s" % (where, p, seq[:12]))
    if rep["unfinished"] is not None:
        if not problems:
            return "%s: stopService's result of cycle %d did not complete in time" % (where, rep["unfinished"])
        problems.append("%s: stopService's result of cycle %d had not completed when the run was given up" % (where, rep["unfinished"]))
        return None
    if full:
        for cyc in range(cycles):
            by_stop = set(done[:rep["completed"][cyc]])
            missing = [tuple(k) for k in keys if k[3] == cyc and tuple(k) not in count]
            late = [tuple(k) for k in keys if k[3] == cyc and tuple(k) in count and tuple(k) not in by_stop]
            if missing:
                problems.append("%s: %d of the messages offered in cycle %d were never passed to the wrapped destination although stopService's result completed, first %s"
                                % (where, len(missing), cyc, missing[0]))
            elif late:
                problems.append("%s: stopService's result of cycle %d completed while the write of message %s had not finished" % (where, cyc, late[0]))
    return None


def run_fork(spec, res):
    """A ThreadedWriter carried over os.fork(). The case process is the 'parent'; the forked child reports through a pipe."""
    import json
    import os
    import select
    import signal
    import time
    rng = random.Random("%s:C19:fork:%d" % (spec["seed"], spec["i"]))
    scenario = FORK_SCENARIOS[spec["i"] % len(FORK_SCENARIOS)]
    nprod = rng.choice([1, 1, 2])
    nmsg = rng.choice([3, 6, 20])
    cycles = rng.choice([1, 1, 2])
    both = scenario in ("construct_fork_both", "start_fork_both")
    running = scenario == "start_fork_both"
    ccycles = 1 if running else cycles

    def keys_of(tag, ncyc):
        return [[tag, p, s_, c_] for c_ in range(ncyc) for p in range(nprod) for s_ in range(nmsg)]
    failing = set(tuple(k) for k in keys_of("child", ccycles) + keys_of("parent", cycles) if rng.random() < 0.15 and k[1:] != [0, 0, 0])
    rec = ForkRecorder(failing, 0.25)
    res["evals"] += 1
    c = res["counters"]
    with warnings.catch_warnings():
        warnings.simplefilter("ignore")
        writer = logwriter.ThreadedWriter(rec, twisted_stub.Reactor())
    pre = []
    if scenario == "cycle_fork_start":
        # a complete cycle before the fork; the child starts the (stopped) writer again
        pr = _fork_use(writer, rec, "before", 1, 2, 1, False, True)
        if pr["unfinished"] is not None:
            res["inconclusive"] = "fork/%s: the cycle before the fork did not complete in time" % scenario
            return
    if running:
        with warnings.catch_warnings():
            warnings.simplefilter("ignore")
            writer.startService()
        rec.me()
        for k in range(rng.choice([0, 2, 5])):
            pre.append(["parent", "pre", k, 0])
            writer({"tag": "parent", "p": "pre", "seq": k, "cyc": 0})
    r, w = os.pipe()
    pid = os.fork()
    if pid == 0:
        code = 0
        try:
            os.close(r)
            rep = _fork_use(writer, rec, "child", nprod, nmsg, ccycles, running, True)
            data = json.dumps(rep).encode()
            while data:
                data = data[os.write(w, data):]
        except BaseException as e:
            try:
                os.write(w, json.dumps({"error": repr(e)}).encode())
            except BaseException:
                pass
            code = 3
        finally:
            os._exit(code)
    os.close(w)
    prep = None
    try:
        if both:
            try:
                prep = _fork_use(writer, rec, "parent", nprod, nmsg, cycles, running, False)
            except BaseException as e:
                prep = {"error": repr(e)}
        data = b""
        deadline = time.monotonic() + 150
        timed_out = False
        while True:
            left = deadline - time.monotonic()
            if left <= 0 or not select.select([r], [], [], left)[0]:
                timed_out = True
                break
            b = os.read(r, 65536)
            if not b:
                break
            data += b
    finally:
        os.close(r)
        if prep is None or timed_out:
            try:
                os.kill(pid, signal.SIGKILL)
            except OSError:
                pass
        _, status = os.waitpid(pid, 0)
    if timed_out:
        res["inconclusive"] = "fork/%s: the forked child did not report within 150 s" % scenario
        return
    if not data:
        res["inconclusive"] = "fork/%s: the forked child ended with status %r and no report" % (scenario, status)
        return
    rep = json.loads(data.decode())
    problems = []
    shape = "%d producer(s) x %d messages x %d cycle(s)" % (nprod, nmsg, ccycles)
    what = {"construct_fork_start": "writer constructed before os.fork(), started and used in the child",
            "cycle_fork_start": "writer run through a start/stop cycle, then os.fork(), started again and used in the child",
            "construct_fork_both": "writer constructed before os.fork(), then started and used in parent and child independently",
            "start_fork_both": "writer started before os.fork() and used in both processes"}[scenario]
    inc = _fork_judge(rep, what + " (child, %s)" % shape, "child", keys_of("child", ccycles), ccycles, not running, failing, problems)
    if both and not inc:
        inc = _fork_judge(prep, what + " (parent)", "parent", pre + keys_of("parent", cycles), cycles, True, failing, problems)
    if inc and not problems:
        res["inconclusive"] = inc
        return
    c["fork_runs"] = c.get("fork_runs", 0) + 1
    c["fork_" + scenario] = c.get("fork_" + scenario, 0) + 1
    if not running and not rep.get("error"):
        c["messages_written_in_a_forked_child"] = c.get("messages_written_in_a_forked_child", 0) + len(rep["calls"])
    res["nontrivial"].append(h(["fork", scenario, nprod, nmsg, cycles, sorted(failing)]))
    if problems:
        res["violations"].append({"msg": problems[0], "mech": None,
                                  "detail": {"part": "fork", "scenario": scenario, "producers": nprod, "messages_each": nmsg, "cycles": cycles,
                                             "failing": sorted(failing)[:20], "problems": problems[:5], "child_calls": rep.get("calls", [])[:40],
                                             "child_overlaps": rep.get("overlaps", [])[:5]}})


LAUNCHER_SCENARIOS = ["construct_fork_start", "construct_fork_fork_start", "running_fork_new_writer"]
LAUNCHER_GATE_GRACE = 0.12   # how long a held write goes on waiting for a second writing thread to show up once the next message is on offer
LAUNCHER_STOP_GRACE = 10.0   # stopService's result must complete within this after the destination has returned for every message
LAUNCHER_LEAK_GRACE = 3.0    # a thread of the writer still alive this long after stopService's result completed is left behind
LAUNCHER_WATCHDOG = 60.0     # expiry = inconclusive


class ThreadLedger(object):
    """Every thread object started through threading.Thread (the scheduler's subclass and the real class alike) from install()
    on, kept alive: threads are told apart by object, never by OS ident."""

    def __init__(self):
        self.started = []
        self._orig = None

    def install(self):
        real = sched._real_Thread
        orig = real.start
        ledger = self

        def start(thread):
            ledger.started.append(thread)
            return orig(thread)
        self._orig = orig
        real.start = start

    def uninstall(self):
        if self._orig is not None:
            sched._real_Thread.start = self._orig
            self._orig = None


class GateRecorder(object):
    """The wrapped destination of part 'launcher': slow on selected messages. The write of a gated message lasts until the thread
    that offered it has offered its next message (an event), and then until either a second call into the destination has begun
    (an event: two threads are writing) or a short grace is over (nothing is concluded from that). Lock-free: it may be copied by fork()."""

    def __init__(self, tag, failing, grace):
        import threading
        self.tag = tag
        self.failing = failing
        self.grace = grace
        self.calls = []      # [tag, p, seq, cyc, thread number] on entry
        self.done = []       # [tag, p, seq, cyc] when the call is over
        self.overlaps = []   # [key that began, key whose call had not returned]
        self.inside = []
        self.threads = []    # thread objects seen, kept alive: position = a name that is never reused
        self.gates = {}      # (p, seq, cyc) -> Event set by the offering thread once the NEXT message has been offered
        self.gates_held = 0
        self.gate_timeouts = 0
        self.overlap_seen = threading.Event()

    def me(self):
        import threading
        t = threading.current_thread()
        for k, x in enumerate(self.threads):
            if x is t:
                return k
        self.threads.append(t)
        return self.threads.index(t)

    def __call__(self, msg):
        key = [msg.get("tag"), msg.get("p"), msg.get("seq"), msg.get("cyc")]
        if self.inside:
            self.overlaps.append([key, list(self.inside[-1])])
            self.overlap_seen.set()
        self.inside.append(key)
        self.calls.append(key + [self.me()])
        try:
            gate = self.gates.get(tuple(key[1:])) if key[0] == self.tag else None
            if gate is not None and not self.overlap_seen.is_set():
                if not gate.wait(30):
                    self.gate_timeouts += 1
                else:
                    self.gates_held += 1
                    self.overlap_seen.wait(self.grace)
            if tuple(key) in self.failing:
                raise excs.DestFault("wrapped destination fails for %r" % (key,))
        finally:
            self.inside.remove(key)
            self.done.append(key)


def _launcher_use(writer, rec, ledger, tag, nprod, nmsg, cycles, gated, first_running, pre, via_logger):
    """Drive `writer` (wrapped destination `rec`) in the current process for `cycles` start/stop cycles; producer 0 is the calling
    thread. gated: set of (p, seq, cyc) whose write is slow. first_running: cycle 0 was started already (and `pre` offered). -> report"""
    import threading
    import time
    callers = [rec.me()]
    ours = []          # threads of the harness (producers, the stand-in thread pool's helper)
    completed = []
    leaked = []
    tracked = 0
    stuck = unfinished = None
    stuck_detail = None
    offer_errors = []
    logger = eliot.Logger() if via_logger else None
    for cyc in range(cycles):
        for (p, s_, c_) in gated:
            if c_ == cyc:
                rec.gates[(p, s_, c_)] = threading.Event()
        first_of_cycle = 0 if (first_running and cyc == 0) else len(ledger.started)
        with warnings.catch_warnings():
            warnings.simplefilter("ignore")
            if not (first_running and cyc == 0):
                writer.startService()

        def offer(p, cyc=cyc):
            if p:
                callers.append(rec.me())
            prev = None
            try:
                for s_ in range(nmsg):
                    m = {"tag": tag, "p": p, "seq": s_, "cyc": cyc}
                    if logger is not None:
                        logger.write(m)
                    else:
                        writer(m)
                    if prev is not None:
                        prev.set()  # the message after a gated one is on offer now
                    prev = rec.gates.get((p, s_, cyc))
            except BaseException as e:
                offer_errors.append("offering message (%r, %d, %d) raised %r" % (p, s_, cyc, e))
            finally:
                if prev is not None:
                    prev.set()
                for (p2, s2, c2), ev in list(rec.gates.items()):
                    if p2 == p and c2 == cyc:
                        ev.set()
        others = [sched._real_Thread(target=offer, args=(p,), daemon=True) for p in range(1, nprod)]
        ours.extend(others)
        for t in others:
            t.start()
        offer(0)
        for t in others:
            t.join()
        expected = set((tag, p, s_, cyc) for p in range(nprod) for s_ in range(nmsg))
        if first_running and cyc == 0:
            expected |= set(tuple(k) for k in pre)
        with warnings.catch_warnings():
            warnings.simplefilter("ignore")
            handle = writer.stopService()
        ours.append(handle.thread)
        t0 = time.monotonic()
        t_all = None
        while True:
            handle.thread.join(0.05)
            if handle.finished:
                break
            now = time.monotonic()
            if t_all is None and expected <= set(tuple(k) for k in list(rec.done)):
                t_all = now  # the wrapped destination has returned for every message offered before stopService
            if t_all is not None and now - t_all > LAUNCHER_STOP_GRACE:
                stuck = cyc
                stuck_detail = len(expected)
                break
            if now - t0 > LAUNCHER_WATCHDOG:
                unfinished = cyc
                break
        if stuck is not None or unfinished is not None:
            break
        completed.append(len(rec.done))
        handle.thread.join(5)
        mine = [t for t in ledger.started[first_of_cycle:] if not any(t is o for o in ours)]
        tracked += len(mine)
        alive = [t for t in ledger.started if not any(t is o for o in ours) and t.is_alive()]
        if alive:
            deadline = time.monotonic() + LAUNCHER_LEAK_GRACE
            for t in alive:
                t.join(max(0.0, deadline - time.monotonic()))
            alive = [t for t in alive if t.is_alive()]
        if alive:
            leaked.append([cyc, len(alive), sum(1 for t in alive if any(t is x for x in rec.threads))])
    return {"calls": list(rec.calls), "done": list(rec.done), "overlaps": list(rec.overlaps), "callers": callers, "completed": completed,
            "stuck": stuck, "stuck_detail": stuck_detail, "unfinished": unfinished, "leaked": leaked, "tracked": tracked,
            "gates_held": rec.gates_held, "gate_timeouts": rec.gate_timeouts, "offer_errors": offer_errors}


def _launcher_judge(rep, where, tag, keys, cycles, problems):
    """keys: [tag, p, seq, cyc] offered in this process (each producer's in offer order). -> reason for inconclusive or None"""
    if rep.get("error"):
        problems.append("%s: the caller's side raised %s" % (where, rep["error"]))
        return None
    for e in rep["offer_errors"][:2]:
        problems.append("%s: %s" % (where, e))
    calls = [tuple(x) for x in rep["calls"]]
    got = [x[:4] for x in calls]
    done = [tuple(x) for x in rep["done"]]
    for a, b in rep["overlaps"][:2]:
        problems.append("%s: message %s was passed to the wrapped destination while its call for message %s had not returned (two threads are writing)"
                        % (where, tuple(a), tuple(b)))
    count = {}
    for k in got:
        count[k] = count.get(k, 0) + 1
    twice = sorted((k for k in count if count[k] > 1), key=repr)
    if twice:
        problems.append("%s: message %s was passed to the wrapped destination %d times" % (where, twice[0], count[twice[0]]))
    foreign = [k for k in got if k[0] != tag]
    if foreign:
        problems.append("%s: message %s, offered to another writer, was passed to this writer's destination" % (where, foreign[0]))
    for cyc in range(cycles):
        idents = set(x[4] for x in calls if x[3] == cyc and x[0] == tag)
        if len(idents) > 1:
            problems.append("%s: cycle %d: the wrapped destination was called on %d different threads" % (where, cyc, len(idents)))
        if idents & set(rep["callers"]):
            problems.append("%s: cycle %d: the wrapped destination was called on a caller's thread" % (where, cyc))
    for p in sorted(set(k[1] for k in keys), key=str):
        for what, seq_of in (("passed to the wrapped destination", got), ("finished being written", done)):
            seq = [(k[3], k[2]) for k in seq_of if k[1] == p and k[0] == tag]
            if seq != sorted(seq):
                problems.append("%s: producer %s's messages were %s out of order: %s" % (where, p, what, seq[:12]))
                break
    if rep["stuck"] is not None:
        problems.append("%s: cycle %d: stopService's result had still not completed %g s after the wrapped destination had returned for every one of the %d "
                        "messages offered before it" % (where, rep["stuck"], LAUNCHER_STOP_GRACE, rep["stuck_detail"]))
    ncomplete = len(rep["completed"])
    for cyc in range(min(cycles, ncomplete)):
        by_stop = set(done[:rep["completed"][cyc]])
        missing = [tuple(k) for k in keys if k[3] == cyc and tuple(k) not in count]
        late = [tuple(k) for k in keys if k[3] == cyc and tuple(k) in count and tuple(k) not in by_stop]
        if missing:
            problems.append("%s: %d of the messages offered in cycle %d were never passed to the wrapped destination although stopService's result completed, first %s"
                            % (where, len(missing), cyc, missing[0]))
        elif late:
            problems.append("%s: stopService's result of cycle %d completed while the write of message %s had not finished" % (where, cyc, late[0]))
    for cyc, n, writing in rep["leaked"][:2]:
        problems.append("%s: cycle %d: %d thread(s) started by the writer were still running %g s after stopService's result had completed%s"
                        % (where, cyc, n, LAUNCHER_LEAK_GRACE, " (%d of them had been calling the wrapped destination)" % writing if writing else ""))
    if rep["unfinished"] is not None:
        if not problems:
            return "%s: stopService's result of cycle %d did not complete within %g s and not every write was observed" % (where, rep["unfinished"], LAUNCHER_WATCHDOG)
        problems.append("%s: stopService's result of cycle %d had not completed when the run was given up" % (where, rep["unfinished"]))
        return None
    if rep["gate_timeouts"] and not problems:
        return "%s: a held write was not released by its producer within 30 s" % where
    return None


def run_launcher(spec, res):
    """A daemonising launcher: the services (the writer among them) are built first, then the process forks (once or twice), and
    only the surviving child calls startService(); 1-3 start/stop cycles there, with a destination that is slow on selected messages.
    Third scenario: the parent's writer is running at the fork and stays the parent's; the child builds and uses its own."""
    import json
    import os
    import select
    import signal
    import time
    rng = random.Random("%s:C19:launcher:%d" % (spec["seed"], spec["i"]))
    scenario = LAUNCHER_SCENARIOS[spec["i"] % len(LAUNCHER_SCENARIOS)]
    nprod = rng.choice([1, 1, 2])
    nmsg = rng.choice([2, 4, 7, 15])
    cycles = rng.choice([1, 2, 3])
    pcycles = rng.choice([1, 2])
    via_logger = scenario != "running_fork_new_writer" and rng.random() < 0.3
    new_writer = scenario == "running_fork_new_writer"

    def keys_of(tag, ncyc):
        return [[tag, p, s_, c_] for c_ in range(ncyc) for p in range(nprod) for s_ in range(nmsg)]

    def pick_gates(ncyc):
        g = set()
        for c_ in range(ncyc):
            g.add((0, rng.randrange(nmsg - 1), c_))  # one held write per cycle that has a successor from the same producer
            for p in range(nprod):
                for s_ in range(nmsg):
                    if rng.random() < 0.12:
                        g.add((p, s_, c_))
        return g
    cgates = pick_gates(cycles)
    pgates = pick_gates(pcycles) if new_writer else set()
    failing = set(tuple(k) for k in keys_of("child", cycles) + (keys_of("parent", pcycles) if new_writer else []) if rng.random() < 0.15)
    res["evals"] += 1
    c = res["counters"]
    ledger = ThreadLedger()
    ledger.install()
    pre = []
    try:
        prec = GateRecorder("parent" if new_writer else "child", failing, LAUNCHER_GATE_GRACE)
        with warnings.catch_warnings():
            warnings.simplefilter("ignore")
            writer = logwriter.ThreadedWriter(prec, twisted_stub.Reactor())
            if new_writer:
                writer.startService()
        if new_writer:
            prec.me()
            for k in range(rng.choice([0, 2, 5])):
                pre.append(["parent", "pre", k, 0])
                writer({"tag": "parent", "p": "pre", "seq": k, "cyc": 0})
        r, w = os.pipe()
        with warnings.catch_warnings():
            warnings.simplefilter("ignore")
            pid = os.fork()
        if pid == 0:
            code = 0
            try:
                os.close(r)
                if scenario == "construct_fork_fork_start":
                    # the classic daemonising double fork: the intermediate process exits at once
                    if os.fork() != 0:
                        os._exit(0)
                signal.signal(signal.SIGALRM, signal.SIG_DFL)
                signal.alarm(170)  # never outlive the case: the default action ends the process
                ledger.started = []
                if new_writer:
                    # the parent's running writer is left alone; this process logs through a writer of its own
                    crec = GateRecorder("child", failing, LAUNCHER_GATE_GRACE)
                    with warnings.catch_warnings():
                        warnings.simplefilter("ignore")
                        cwriter = logwriter.ThreadedWriter(crec, twisted_stub.Reactor())
                else:
                    crec, cwriter = prec, writer
                rep = _launcher_use(cwriter, crec, ledger, "child", nprod, nmsg, cycles, cgates, False, [], via_logger)
                data = json.dumps(rep).encode()
                while data:
                    data = data[os.write(w, data):]
            except BaseException as e:
                try:
                    os.write(w, json.dumps({"error": repr(e)}).encode())
                except BaseException:
                    pass
                code = 3
            finally:
                os._exit(code)
        os.close(w)
        prep = None
        timed_out = False
        try:
            if new_writer:
                try:
                    prep = _launcher_use(writer, prec, ledger, "parent", nprod, nmsg, pcycles, pgates, True, pre, False)
                except BaseException as e:
                    prep = {"error": repr(e)}
            data = b""
            deadline = time.monotonic() + 200
            while True:
                left = deadline - time.monotonic()
                if left <= 0 or not select.select([r], [], [], left)[0]:
                    timed_out = True
                    break
                b = os.read(r, 65536)
                if not b:
                    break
                data += b
        finally:
            os.close(r)
            if timed_out:
                try:
                    os.kill(pid, signal.SIGKILL)
                except OSError:
                    pass
            _, status = os.waitpid(pid, 0)
    finally:
        ledger.uninstall()
    if timed_out:
        res["inconclusive"] = "launcher/%s: the forked child did not report within 200 s" % scenario
        return
    if not data:
        res["inconclusive"] = "launcher/%s: the forked child ended with status %r and no report" % (scenario, status)
        return
    rep = json.loads(data.decode())
    problems = []
    shape = "%d producer(s) x %d messages x %d cycle(s), %d slow write(s)%s" % (nprod, nmsg, cycles, len(cgates), ", offered through eliot's Logger" if via_logger else "")
    what = {"construct_fork_start": "writer constructed before os.fork(), started, used and stopped only in the child",
            "construct_fork_fork_start": "writer constructed before a double os.fork(), started, used and stopped only in the grandchild",
            "running_fork_new_writer": "os.fork() while the parent's writer is running, the child uses a new writer of its own"}[scenario]
    inc = _launcher_judge(rep, what + " (child, %s)" % shape, "child", keys_of("child", cycles), cycles, problems)
    if new_writer and not inc:
        inc = _launcher_judge(prep, what + " (parent's writer, %d cycle(s))" % pcycles, "parent", pre + keys_of("parent", pcycles), pcycles, problems)
    if inc and not problems:
        res["inconclusive"] = inc
        return
    c["launcher_runs"] = c.get("launcher_runs", 0) + 1
    c["launcher_" + scenario] = c.get("launcher_" + scenario, 0) + 1
    if not rep.get("error"):
        k = "launcher_messages_written_by_a_new_writer_in_the_child" if new_writer else "launcher_messages_written_after_construct_fork_start"
        c[k] = c.get(k, 0) + len(rep["calls"])
        c["launcher_slow_writes_held_until_the_next_offer"] = c.get("launcher_slow_writes_held_until_the_next_offer", 0) + rep["gates_held"]
        c["launcher_writer_threads_seen_ended_after_stop"] = c.get("launcher_writer_threads_seen_ended_after_stop", 0) + rep["tracked"] - sum(x[1] for x in rep["leaked"])
        c["launcher_stop_results_completed"] = c.get("launcher_stop_results_completed", 0) + len(rep["completed"])
        if via_logger:
            c["launcher_runs_offering_through_eliot_logger"] = c.get("launcher_runs_offering_through_eliot_logger", 0) + 1
    res["nontrivial"].append(h(["launcher", scenario, nprod, nmsg, cycles, sorted(cgates), sorted(failing), via_logger]))
    if problems:
        res["violations"].append({"msg": problems[0], "mech": None,
                                  "detail": {"part": "launcher", "scenario": scenario, "producers": nprod, "messages_each": nmsg, "cycles": cycles,
                                             "slow_writes": sorted(cgates), "failing": sorted(failing)[:20], "via_logger": via_logger, "problems": problems[:6],
                                             "child_calls": rep.get("calls", [])[:40], "child_overlaps": rep.get("overlaps", [])[:5]}})


class EmptyRecord(dict):
    """A mapping type of the application's own that is empty (and so falsy)."""


def run_oddmessages(spec, res):
    """One writer under real OS threads: the messages offered include unusual but legal values (empty dict, empty bytes / text, an
    empty mapping subclass, 0, None-free falsy values) and the wrapped destination raises I/O exceptions of every flavour - among them
    BlockingIOError and InterruptedError, which say 'try again' to code that owns the file, not to the writer - on selected messages.
    Every message offered before stopService is passed to the destination exactly once, in order; a raising call loses only that message."""
    import errno
    rng = random.Random("%s:C19:odd:%d" % (spec["seed"], spec["i"]))
    c = res["counters"]
    for round_ in range(8):
        odd_pool = [{}, b"", "", EmptyRecord(), 0, [], (), False]
        offered = []
        for k in range(rng.randint(4, 12)):
            if rng.random() < 0.4:
                offered.append(rng.choice(odd_pool))
            else:
                offered.append({"n": k, "pad": "x" * rng.randint(0, 20)})
        kinds = ["blocking", "interrupted", "eagain", "enospc", "timeout", "value", None, None, None]
        plan_ = [rng.choice(kinds) for _ in offered]
        got = []

        def dest(msg, got=got, plan_=plan_):
            i = len(got)
            got.append(msg)
            kind = plan_[i] if i < len(plan_) else None
            if kind == "blocking":
                raise BlockingIOError(errno.EAGAIN, "Resource temporarily unavailable")
            if kind == "interrupted":
                raise InterruptedError(errno.EINTR, "Interrupted system call")
            if kind == "eagain":
                raise OSError(errno.EAGAIN, "Resource temporarily unavailable")
            if kind == "enospc":
                raise OSError(errno.ENOSPC, "No space left on device")
            if kind == "timeout":
                raise TimeoutError("timed out")
            if kind == "value":
                raise ValueError("I/O operation on closed file.")
        problems = []
        import io
        saved_err = sys.stderr
        sys.stderr = io.StringIO()  # (the writer prints the destination's tracebacks)
        try:
            with warnings.catch_warnings():
                warnings.simplefilter("ignore")
                writer = logwriter.ThreadedWriter(dest, twisted_stub.Reactor())
                writer.startService()
                for m in offered:
                    writer(m)
                handle = writer.stopService()
            done = threading.Event()
            waiter = threading.Thread(target=lambda: (handle.wait(), done.set()), daemon=True)
            waiter.start()
            if not done.wait(60):
                res["inconclusive"] = "oddmessages: stopService's result did not complete within 60 s"
                return
        except BaseException as e:
            problems.append("offering / stopping raised %r" % (e,))
        finally:
            sys.stderr = saved_err
        res["evals"] += 1
        if len(got) != len(offered) or any(a is not b for a, b in zip(got, offered)):
            problems.append("offered %d messages %r (the destination raises %s), the wrapped destination was called with %r" % (
                len(offered), offered, [k for k in plan_ if k], got))
        c["odd_messages_offered"] = c.get("odd_messages_offered", 0) + sum(1 for m in offered if not m)
        c["destination_calls_raising_try_again_errors"] = c.get("destination_calls_raising_try_again_errors", 0) + sum(1 for k in plan_ if k in ("blocking", "interrupted", "eagain"))
        res["nontrivial"].append(h(["odd", spec["i"], round_]))
        if problems:
            res["violations"].append({"msg": "part oddmessages: " + problems[0], "mech": None, "detail": {"part": "oddmessages", "problems": problems[:3]}})
            return


def run_case(spec):
    res = {"evals": 0, "nontrivial": [], "counters": {}, "violations": [], "sample": None, "sets": {"interleavings": [], "preemption_lines": []}}
    if spec.get("oddmessages"):
        run_oddmessages(spec, res)
        return res
    if spec.get("launcher"):
        run_launcher(spec, res)
        return res
    if spec.get("signals"):
        run_signals(spec, res)
        return res
    if spec.get("nostderr"):
        run_nostderr(spec, res)
        return res
    if spec.get("fork"):
        run_fork(spec, res)
        return res
    rng = random.Random("%s:C19:%d" % (spec["seed"], spec["i"]))
    sched.instrument([logwriter], post_call=(spec.get("tier") == "thorough"))  # (thorough: switch points also after call instructions inside a line)
    if spec.get("backlog"):
        run_backlog(spec, res)
        return res
    if spec.get("slow"):
        # stopService must wait for a destination however slow it is: the clock thread K (lowest priority) wakes the stalled
        # destination only after every timed wait of the code under test has expired
        r2 = random.Random("%s:C19:slow:%d" % (spec["seed"], spec["i"]))
        nprod, nmsg = 1, r2.choice([1, 2, 3])
        names = ["S", "P0", "dyn1", "dyn2", "K"]
        for order in ([names] + [r2.sample(names[:-1], 4) + ["K"] for _ in range(3)]):
            st, tape, idents, problems = run_once({"order": order, "changes": []}, nprod, nmsg, 1, False, set(), slow=True)
            res["evals"] += 1
            res["counters"]["slow_destination_runs"] = res["counters"].get("slow_destination_runs", 0) + 1
            if st["deadlock"]:
                problems.append("writer threads deadlocked with a slow destination: %s" % st["deadlock"])
            elif st["aborted"]:
                res["inconclusive"] = "slow-destination schedule abandoned: %s" % st["aborted"]
                continue
            else:
                judge(tape, idents, nprod, nmsg, 1, set(), problems)
                waits = [w for t, w in st["blocked"] if t == "P0" and w != "wait"]
                if waits:
                    problems.append("offering a message made the caller wait (%s) while the wrapped destination was busy with an earlier one: "
                                    "logging blocks on slow output" % (waits[0],))
                res["counters"]["offers_while_destination_stalled"] = res["counters"].get("offers_while_destination_stalled", 0) + sum(
                    1 for e in tape.entries if e["k"] == "offer_ret")
            res["nontrivial"].append(h(["slow", order, nmsg]))
            if problems:
                res["violations"].append({"msg": problems[0], "mech": None, "detail": {"part": "slow destination", "order": order, "problems": problems[:4]}})
                break
        return res
    nprod = rng.choice([1, 1, 2, 3])
    nmsg = rng.choice([1, 2, 3]) if nprod > 1 else rng.choice([1, 2, 4, 8])
    cycles = rng.choice([1, 1, 1, 2, 3])
    concurrent_stop = rng.random() < 0.4
    total = nprod * nmsg * cycles
    failmask = set(i for i in range(total) if rng.random() < rng.choice([0.0, 0.3, 1.0]))
    second_writer = rng.random() < 0.25
    nested = rng.random() < 0.3
    stray = rng.choice([0, 0, 1, 2])
    prebuffer = rng.choice([0, 0, 2, 3]) if not second_writer else 0
    names = ["S"] + ["P%d" % p for p in range(nprod)] + ["dyn%d" % (k + 1) for k in range((4 if second_writer else 2) * cycles)]
    c = res["counters"]

    def execute(plan_, label):
        st, tape, idents, problems = run_once(plan_, nprod, nmsg, cycles, concurrent_stop, failmask, second_writer, nested=nested, stray=stray, prebuffer=prebuffer)
        if nested:
            c["schedules_with_a_logging_destination"] = c.get("schedules_with_a_logging_destination", 0) + 1
        res["evals"] += 1
        c["schedules_run"] = c.get("schedules_run", 0) + 1
        if st["deadlock"]:
            problems.append("writer threads deadlocked: %s" % st["deadlock"])
            res["violations"].append({"msg": problems[0], "mech": None, "detail": {"plan": plan_, "label": label}})
            return st
        if st["aborted"]:
            res["inconclusive"] = "schedule abandoned: %s" % st["aborted"]
            return st
        nw = judge(tape, idents, nprod, nmsg, cycles, failmask, problems)
        c["writes_observed"] = c.get("writes_observed", 0) + nw
        c["destination_faults_fired"] = c.get("destination_faults_fired", 0) + sum(1 for e in tape.entries if e["k"] == "write" and e["call"] in failmask)
        c["dynamic_threads_registered"] = c.get("dynamic_threads_registered", 0) + st["dynamic_threads"]
        res["sets"]["interleavings"].append(sched.trace_hash(st))
        for nm, k, loc in st["fired"]:
            res["sets"]["preemption_lines"].append(loc)
        if st["fired"] or concurrent_stop:
            res["nontrivial"].append(sched.trace_hash(st))
        if problems and len(res["violations"]) < 3:
            res["violations"].append({"msg": problems[0], "mech": None,
                                      "detail": {"plan": plan_, "producers": nprod, "messages": nmsg, "cycles": cycles, "concurrent_stop": concurrent_stop,
                                                 "failmask": sorted(failmask), "problems": problems[:5], "label": label,
                                                 "history": [{k: v for k, v in e.items() if k not in ("ident",)} for e in tape.entries][:60]}})
        return st

    orders = [list(names)]
    for _ in range(3 if spec["tier"] == "quick" else 8):
        o = list(names)
        rng.shuffle(o)
        orders.append(o)
    base = None
    for order in orders:
        base = execute({"order": order, "changes": []}, "baseline")
        if base["aborted"]:
            continue
        for p in sched.one_preemption_plans(order, base["events"]):
            execute(p, "1-preemption")
            if len(res["violations"]) >= 3:
                return res
    for p in sched.sampled_plans(rng, names, base["events"], 40 if spec["tier"] == "quick" else 400):
        execute(p, "sampled")
    if spec["i"] % 10 == 0:
        res["sample"] = {"producers": nprod, "messages_each": nmsg, "cycles": cycles, "concurrent_stop": concurrent_stop, "failmask": sorted(failmask),
                         "baseline_events": base["events"], "baseline_trace": base["trace"][:16]}
    return res


def finalize(agg, tier):
    c = agg["counters"]
    if c.get("schedules_run", 0) < 1000 or c.get("writes_observed", 0) < 1000:
        return "too few schedules / writes observed"
    if c.get("dynamic_threads_registered", 0) == 0:
        return "the writer's own threads were never registered with the scheduler"
    if c.get("odd_messages_offered", 0) < 20 or c.get("destination_calls_raising_try_again_errors", 0) < 20:
        return "part 'oddmessages' offered fewer than 20 falsy messages or saw fewer than 20 'try again' I/O errors from the destination"
    if not any(l.startswith("logwriter.py") for l in agg["sets"].get("preemption_lines", {})):
        return "no preemption landed inside eliot/logwriter.py"
    if c.get("messages_written_in_a_forked_child", 0) == 0:
        return "part 'fork': no message was written by a writer started in a forked child"
    if c.get("launcher_messages_written_after_construct_fork_start", 0) == 0:
        return "part 'launcher': no message was written by a writer constructed before os.fork() and started after it"
    if c.get("launcher_messages_written_by_a_new_writer_in_the_child", 0) == 0:
        return "part 'launcher': no message was written by a new writer in the child of a process whose own writer was running at the fork"
    if c.get("launcher_slow_writes_held_until_the_next_offer", 0) == 0:
        return "part 'launcher': no write was held until the next message was on offer"
    if c.get("launcher_writer_threads_seen_ended_after_stop", 0) == 0 or c.get("launcher_stop_results_completed", 0) == 0:
        return "part 'launcher': the thread ledger never saw a thread of the writer (started between startService and stopService) ended after stopService's result completed"
    if c.get("nostderr_destination_faults_fired", 0) == 0:
        return "part 'nostderr' never had the wrapped destination raise in a process without a usable stderr"
    return None
