"""C20 - bundled readers: renderer completeness checker + CLI stream monitor."""

import copy
import datetime
import json
import os
import random
import re
import subprocess
import sys
import types

from eliot.prettyprint import compact_format, pretty_format

from vf import gen
from vf.gen import json_equal
from vf.runner import REPO, h

ID = "C20"
LEVEL = "exploration"
RULE = ("part 'format': Eliot messages (metadata + action/message typing + fields over the JSON-native domain incl. multi-line strings "
        "and nesting; field names printable without whitespace or '='; some values nested 11-40 levels deep through lists) are rendered by compact_format and pretty_format and the "
        "output is re-parsed independently: header (task_uuid, '/'-joined level, ISO UTC timestamp equal to the message's to the "
        "microsecond), then every remaining field exactly once, type/status fields first and the rest sorted; compact values decoded "
        "with json.JSONDecoder.raw_decode must equal the field values; pretty blocks are repr-exact for scalars and short strings and "
        "must contain every leaf token otherwise. part 'cli': mixed byte streams (Eliot lines, arbitrary bytes, non-JSON text, JSON "
        "scalars/arrays/null/strings, objects lacking required fields, messages whose text holds surrogate escapes) are piped through the eliot-prettyprint entry point in a "
        "subprocess: exit status 0, one record per input line in order, Eliot lines rendered as the API renders them, every other "
        "line reported as 'Not JSON' / 'Not an Eliot message'. Both parts run in processes whose local time zone is one of five POSIX zones (offsets from -11 h to +12:45): the default rendering "
        "stays UTC; with local_timezone=True / --local-timezone the timestamp is the local time without the Z and nothing else changes. "
        "part 'filter': python -m eliot.filter with J reproduces every "
        "message, with SKIP drops exactly the selected ones. part 'keylen': for every length 1..120 (thorough: ..200) a message with a field name of exactly that length (ASCII and mixed alphabets, scalar, multi-line, long and nested values) goes through "
        "compact_format and pretty_format (same re-parsing oracle) and the 120 messages are streamed through the CLI in both modes (exit status 0, every message rendered). part 'live': the CLI (PYTHONUNBUFFERED removed from its environment, so stdout is block "
        "buffered and output shows up once it exceeds the buffers) is fed 2500-4000 complete lines (messages of >= 100 bytes each, one non-JSON line and one non-Eliot object among the first ten) through a pipe that is KEPT OPEN: the renderings of "
        "the first ten lines must appear on stdout while stdin is still open; the violation is decided on a state, not a deadline - all input consumed (pipe empty), the command asleep without using CPU over consecutive samples with its stdout "
        "drained, and those renderings absent (no such state within 90 s = inconclusive); afterwards stdin is closed and exit status 0 and one rendering per message are required. non-trivial = message with a multi-line/escape-requiring string or "
        "nesting, or a stream with >=2 kinds of foreign lines; distinct by hash of message / stream. "
        "Widened (r9): half of the 'cli' streams carry their messages in other legal JSON-text spellings of the same bytes-on-a-line (a UTF-8 signature EF BB BF in front of the first line as a utf-8-sig text file writes it, "
        "or in front of any message line as in concatenated logs; CRLF line ends; blanks/tabs/CR around the JSON text) - each such line still is that message and must be rendered, not reported. "
        "Every fourth 'format' message is additionally rendered several times from ONE dict object (sequences of pretty_format / compact_format / local-time renderings, 3-5 calls): every rendering is judged by the same "
        "re-parsing oracle against the message as generated, the caller's dict must equal a deep copy taken before, and read-only views of the message (types.MappingProxyType, pyrsistent.pmap) are rendered like the message itself. "
        "Each of those repeated renderings must also equal, character for character, the rendering of a fresh deep copy of the message that no formatter has seen before (no dependence on earlier calls; "
        "local_timezone=True renderings only if the functions have that parameter), and the dict handed over must equal the deep copy (snapshot) taken before the first call. "
        "part 'sigfile': a separate interpreter logs a small generated program (nested actions with fields over the JSON-native domain, messages, failing actions, tracebacks) through "
        "eliot.FileDestination(file=open(path, 'w', encoding='utf-8-sig')) / to_file of such a file (newline translation default, LF, CR LF or none; one run, two runs appending to one file, or two such logs "
        "concatenated), so the file starts with the UTF-8 signature EF BB BF directly followed by the first message; the file is read independently (signature stripped, one JSON text per line) and given to the "
        "command as stdin in pretty, compact and --local-timezone mode: exit status 0, one record per line in order, every line - the one behind the signature included - rendered as the API renders that "
        "message, and that rendering passes the re-parsing oracle")
ASSUMPTIONS = ["field names contain no whitespace and no '=' (otherwise the compact form is ambiguous to any reader)",
               "the CLI is run with UTF-8 standard streams"]

FIRST = ["action_type", "message_type", "action_status"]
SKIPF = {"timestamp", "task_uuid", "task_level", "message_type", "action_type", "action_status"}


def plan(tier, seed):
    n = 20000 if tier == "quick" else 200000
    B = 100
    specs = [{"part": "format", "seed": seed, "lo": i, "hi": min(n, i + B)} for i in range(0, n, B)]
    m = 320 if tier == "quick" else 3000
    specs += [{"part": "cli", "seed": seed, "lo": i, "hi": min(m, i + 4)} for i in range(0, m, 4)]
    f = 160 if tier == "quick" else 1600
    specs += [{"part": "filter", "seed": seed, "lo": i, "hi": min(f, i + 4)} for i in range(0, f, 4)]
    specs += [{"part": "keylen", "seed": seed, "lo": i, "hi": i + 1, "maxlen": 120 if tier == "quick" or i % 2 == 0 else 200}
              for i in range(2 if tier == "quick" else 10)]
    specs += [{"part": "live", "seed": seed, "lo": i, "hi": i + 1} for i in range(4 if tier == "quick" else 24)]
    g = 24 if tier == "quick" else 240
    specs += [{"part": "sigfile", "seed": seed, "lo": i, "hi": min(g, i + 2)} for i in range(0, g, 2)]
    return specs


def gen_keyname(rng):
    while True:
        r = rng.random()
        if r < 0.6:
            k = rng.choice(gen.IDENT_KEYS + ["exception", "reason", "result", "errno", "traceback"])
        elif r < 0.8:
            k = rng.choice(["kéy", "k-1", "k.dot", "中", "\U0001f600k", "with\"quote", "k/slash", "CamelCase", "k\\bs", "a|b", "|", "k:", ":"])
        else:
            k = "".join(rng.choice("abcXYZ019_-.:/|\\\"'é中") for _ in range(rng.randint(1, 6)))
        if k and not any(c.isspace() for c in k) and "=" not in k and k not in SKIPF:
            return k


def gen_message(rng, simple=False):
    m = {"task_uuid": rng.choice(["a1b2c3d4-0000-4000-8000-%012d" % rng.randint(0, 10**9), "uuid-%d" % rng.randint(0, 99)]),
         "task_level": [rng.randint(1, 20) for _ in range(rng.randint(1, 5))],
         "timestamp": rng.choice([0.0, 1.0, 1e9 + 0.5, 1425356800.0, 1425356936.278875, 1790964959.7875454, 1e9 + 0.000001, 253402300799.999,
                                  rng.uniform(0, 2e9), float(rng.randint(0, 2 * 10**9)), rng.randint(0, 2 * 10**9),
                                  rng.randint(0, 2 * 10**9) + rng.choice([0.9999996, 0.9999999, 0.99999949, 0.9999995, 0.0000004, 0.0000005, 0.5, 0.999999]),
                                  1443193754.9999997, 59.9999999, 86399.9999998])}
    r = rng.random()
    if r < 0.4:
        m["message_type"] = rng.choice(["app:msg", "", "eliot:traceback", gen.gen_text(rng, long_ok=False)])
    elif r < 0.9:
        m["action_type"] = rng.choice(["app:act", "x", gen.gen_text(rng, long_ok=False)])
        m["action_status"] = rng.choice(["started", "succeeded", "failed"])
    for _ in range(rng.randint(0, 5)):
        k = gen_keyname(rng)
        r = rng.random()
        if simple or r < 0.4:
            v = gen.gen_scalar(rng)
        elif r < 0.55:
            v = "\n".join(gen.gen_text(rng, long_ok=False) for _ in range(rng.randint(2, 5)))
        elif r < 0.65:
            v = " ".join(rng.choice(["alpha", "beta", "gamma", "delta", "x" * 30, "tab\there"]) for _ in range(rng.randint(5, 30)))
        elif r < 0.97:
            v = gen.gen_value(rng, rng.choice([1, 2, 3]))
        else:
            # nested far beyond what the value generator produces, through lists (a tree, a tensor): every level stays visible
            d = rng.choice([11, 12, 15, 25, 40])
            v = "leaf-%d" % d
            for lvl in range(d):
                v = [lvl, v] if rng.random() < 0.8 else {"l%d" % lvl: v}
        m[k] = v
    return m


def expected_ts(ts):
    d = datetime.datetime.fromtimestamp(ts, tz=datetime.timezone.utc)
    base = d.strftime("%Y-%m-%dT%H:%M:%S")
    alts = ["%s.%06dZ" % (base, d.microsecond)]
    if d.microsecond == 0:
        alts.append(base + "Z")
    return alts


def field_order(m):
    keys = [k for k in FIRST if k in m]
    keys += sorted(k for k in m if k not in SKIPF)
    return keys


def check_compact(m, out, problems, ts_alts=None):
    if "\n" in out or "\r" in out:
        problems.append("compact output is not a single line")
        return
    head = m["task_uuid"] + "/" + "/".join(str(x) for x in m["task_level"]) + " "
    if not out.startswith(head):
        problems.append("compact output does not start with task_uuid/level: %r" % out[:80])
        return
    rest = out[len(head):]
    ts, _, rest = rest.partition(" ")
    if ts not in (ts_alts or expected_ts(m["timestamp"])):
        problems.append("compact timestamp %r, expected %s" % (ts, ts_alts or expected_ts(m["timestamp"])))
    dec = json.JSONDecoder()
    pos = 0
    for k in field_order(m):
        if not rest.startswith(k + "=", pos):
            problems.append("compact output: expected field %r at offset %d of %r" % (k, pos, rest[:200]))
            return
        pos += len(k) + 1
        try:
            v, end = dec.raw_decode(rest, pos)
        except ValueError as e:
            problems.append("compact value of %r is not JSON: %r" % (k, e))
            return
        if not json_equal(v, m[k]):
            problems.append("compact value of %r decodes to %r, message has %r" % (k, v, m[k]))
        pos = end
        if pos < len(rest):
            if rest[pos] != " ":
                problems.append("compact parts not separated by a space after %r" % k)
                return
            pos += 1
    if pos != len(rest):
        problems.append("compact output has trailing text %r" % rest[pos:pos + 80])


def leaf_tokens(v, out):
    if isinstance(v, bool) or v is None:
        out.append(repr(v))
    elif isinstance(v, (int, float)):
        out.append(repr(v))
    elif isinstance(v, str):
        for mobj in re.finditer(r"[A-Za-z0-9]{3,}", v):
            if mobj.start() > 0 and v[mobj.start() - 1] == "\\":
                continue
            out.append(mobj.group(0))
    elif isinstance(v, list):
        for x in v:
            leaf_tokens(x, out)
    elif isinstance(v, dict):
        for k, x in v.items():
            leaf_tokens(k, out)
            leaf_tokens(x, out)


def check_pretty(m, out, problems, ts_alts=None):
    lines = out.split("\n")
    want0 = "%s -> /%s" % (m["task_uuid"], "/".join(str(x) for x in m["task_level"]))
    if lines[0] != want0:
        problems.append("pretty header %r, expected %r" % (lines[0], want0))
        return
    if len(lines) < 2 or lines[1] not in (ts_alts or expected_ts(m["timestamp"])):
        problems.append("pretty timestamp line %r, expected %s" % (lines[1:2], ts_alts or expected_ts(m["timestamp"])))
        return
    i = 2
    for k in field_order(m):
        start = "  %s: " % k
        if i >= len(lines) or not lines[i].startswith(start):
            problems.append("pretty output: expected block of field %r at line %d, found %r" % (k, i, lines[i] if i < len(lines) else None))
            return
        cont = " " * (2 + len(k)) + "| "
        block = [lines[i][len(start):]]
        i += 1
        while i < len(lines) and lines[i].startswith(cont):
            block.append(lines[i][len(cont):])
            i += 1
        v = m[k]
        text = "\n".join(block)
        simple = isinstance(v, (int, float, bool)) or v is None or (isinstance(v, str) and len(repr(v)) <= 36 and "\\" not in repr(v))
        if simple:
            if text != repr(v):
                problems.append("pretty block of %r is %r, expected %r" % (k, text, repr(v)))
        else:
            toks = []
            leaf_tokens(v, toks)
            flat = text
            for t in set(toks):
                if flat.count(t) < 1:
                    # wrapped strings are shown as adjacent quoted chunks: join them before giving up
                    joined = re.sub(r"'\s*'", "", re.sub(r'"\s*"', "", flat.replace("\n", "")))
                    if t not in joined and t.lower() not in joined.lower():
                        problems.append("pretty block of %r lacks %r (value %r, block %r)" % (k, t, v, text[:300]))
                        break
    rest = [ln for ln in lines[i:] if ln != ""]
    if rest:
        problems.append("pretty output has unexpected trailing lines %r" % rest[:3])


try:
    from pyrsistent import pmap as _pmap
except Exception:  # (pyrsistent is a dependency of eliot; without it only the stdlib view is used)
    _pmap = None

try:
    import inspect as _inspect
    HAS_LOCAL_TIMEZONE = all("local_timezone" in _inspect.signature(f).parameters for f in (pretty_format, compact_format))
except (TypeError, ValueError):
    HAS_LOCAL_TIMEZONE = True

SAME_OBJECT_SEQUENCES = ["PCP", "PPC", "PC", "CPC", "PLC", "PcP", "CPLP", "PCPCP", "LPC", "cPC"]  # P pretty, C compact, L pretty local time, c compact local time


def run_same_object(m, i, seed, zoff, res, problems):
    """One dict object (and read-only views of it) rendered several times in a row: each rendering shows the whole message; the caller's object stays as it was."""
    rng = random.Random("%s:C20:fs:%d" % (seed, i))
    try:
        local_ts = [(datetime.datetime.fromtimestamp(m["timestamp"], tz=datetime.timezone.utc) + datetime.timedelta(minutes=zoff)).replace(tzinfo=None).isoformat(sep="T")]
    except (OverflowError, ValueError):
        local_ts = None  # the local time lies outside datetime's range
    seq = rng.choice(SAME_OBJECT_SEQUENCES)
    if local_ts is None or not HAS_LOCAL_TIMEZONE:
        seq = seq.replace("L", "P").replace("c", "C")
    c = res["counters"]
    holders = [("the same dict object", lambda d: d)]
    if rng.random() < 0.3:
        holders.append(("a read-only view (types.MappingProxyType) of the message", types.MappingProxyType))
        if _pmap is not None:
            holders.append(("a read-only copy (pyrsistent.pmap) of the message", _pmap))
    fresh_texts = {}  # per kind of call: the text for a deep copy of the message that no formatter has seen before
    for what, make in holders:
        obj = copy.deepcopy(m)
        snapshot = copy.deepcopy(obj)
        held = make(obj)
        done = ""
        for op in seq:
            fn, chk, name = (pretty_format, check_pretty, "pretty_format") if op in "PL" else (compact_format, check_compact, "compact_format")
            local = op in "Lc"
            before = len(problems)
            try:
                out = fn(held, True) if local else fn(held)
            except BaseException as e:
                problems.append("%s raised %r" % (name, e))
                out = None
            if out is not None:
                if isinstance(out, str):
                    chk(m, out, problems, local_ts if local else None)
                    if len(problems) == before:
                        # no dependence on earlier calls: a fresh deep copy of the message as generated, never rendered before, gives the same text
                        try:
                            if op.upper() + str(local) not in fresh_texts:
                                fresh_texts[op.upper() + str(local)] = fn(copy.deepcopy(m), True) if local else fn(copy.deepcopy(m))
                            fresh = fresh_texts[op.upper() + str(local)]
                        except BaseException as e:
                            fresh = None
                            problems.append("%s of a fresh copy of the message raised %r" % (name, e))
                        if fresh is not None and fresh != out:
                            at = next((j for j, (x, y) in enumerate(zip(out, fresh)) if x != y), min(len(out), len(fresh)))
                            problems.append("%s gives a different text than for a fresh copy of the same message (first difference at offset %d: %r, fresh copy %r)" % (
                                name, at, out[max(0, at - 30):at + 50], fresh[max(0, at - 30):at + 50]))
                        c["same_object_renderings_compared_with_fresh_copy"] = c.get("same_object_renderings_compared_with_fresh_copy", 0) + 1
                else:
                    problems.append("%s returned %s" % (name, type(out).__name__))
            if len(problems) > before:
                problems[before] = "%s, rendered as call %d of the sequence %r (after %r): %s" % (what, len(done) + 1, seq, done, problems[before])
                del problems[before + 1:]
                break
            if done:
                c["same_object_rerenderings"] = c.get("same_object_rerenderings", 0) + 1
                if "P" in done or "L" in done:
                    c["renderings_after_pretty_format_of_same_object"] = c.get("renderings_after_pretty_format_of_same_object", 0) + 1
            done += op
        if make is not holders[0][1]:
            c["readonly_mapping_renderings"] = c.get("readonly_mapping_renderings", 0) + len(done)
        # ground truth: the message as generated (m); obj is what the formatters were handed, snapshot its deep copy taken before the first call
        c["same_object_snapshots_compared"] = c.get("same_object_snapshots_compared", 0) + 1
        if not (obj == snapshot and json.dumps(obj, sort_keys=True) == json.dumps(snapshot, sort_keys=True)):
            problems.append("%s is not equal to the deep copy taken before rendering it (%s): fields gone %s, fields added %s, fields changed %s" % (
                what, seq, sorted(set(snapshot) - set(obj)), sorted(set(obj) - set(snapshot)), sorted(k for k in snapshot if k in obj and obj[k] != snapshot[k])))
        elif not (obj == m and json.dumps(obj, sort_keys=True) == json.dumps(m, sort_keys=True)):
            gone = sorted(set(m) - set(obj))
            problems.append("%s was modified by rendering it (%s): fields gone %s, fields added %s, fields changed %s" % (
                what, seq, gone, sorted(set(obj) - set(m)), sorted(k for k in m if k in obj and obj[k] != m[k])))
    if any(k in m for k in FIRST):
        c["same_object_messages_with_type_or_status"] = c.get("same_object_messages_with_type_or_status", 0) + 1


ZONES = [("UTC0", 0), ("IST-5:30", 330), ("NST3:30", -210), ("CHAST-12:45", 765), ("XYZ11", -660)]  # POSIX TZ strings: no tz database needed


def run_format(spec, res):
    import time as _time
    # the process runs in some local time zone (this case's own forked process): the default rendering is UTC all the same
    zname, zoff = ZONES[(spec["lo"] // 250) % len(ZONES)]
    os.environ["TZ"] = zname
    _time.tzset()
    res["sets"].setdefault("process_time_zones", []).append(zname)
    for i in range(spec["lo"], spec["hi"]):
        rng = random.Random("%s:C20:f:%d" % (spec["seed"], i))
        m = gen_message(rng)
        problems = []
        if i % 4 == 0:
            # local_timezone=True: the same rendering with the timestamp in the process's local time and without the Z
            try:
                want = (datetime.datetime.fromtimestamp(m["timestamp"], tz=datetime.timezone.utc) + datetime.timedelta(minutes=zoff)).replace(tzinfo=None).isoformat(sep="T")
            except (OverflowError, ValueError):
                want = None  # the local time lies outside datetime's range (the last hours of year 9999)
            try:
                if want is None:
                    raise StopIteration
                loc = compact_format(dict(m), True)
                utc = compact_format(dict(m))
                head = m["task_uuid"] + "/" + "/".join(str(x) for x in m["task_level"]) + " "
                ts = loc[len(head):].split(" ", 1)[0]
                if ts != want:
                    problems.append("local_timezone rendering shows %r in zone %s, expected %r" % (ts, zname, want))
                if loc[len(head) + len(ts):] != utc[len(head) + len(utc[len(head):].split(" ", 1)[0]):]:
                    problems.append("local_timezone rendering differs from the UTC one in more than the timestamp")
                res["counters"]["local_timezone_renderings"] = res["counters"].get("local_timezone_renderings", 0) + 1
            except StopIteration:
                pass
            except BaseException as e:
                problems.append("compact_format(local_timezone=True) raised %r" % (e,))
        for name, fn, chk in (("compact_format", compact_format, check_compact), ("pretty_format", pretty_format, check_pretty)):
            try:
                out = fn(dict(m))
            except BaseException as e:
                problems.append("%s raised %r" % (name, e))
                continue
            if not isinstance(out, str):
                problems.append("%s returned %s" % (name, type(out).__name__))
                continue
            chk(m, out, problems)
        if i % 4 == 1:
            run_same_object(m, i, spec["seed"], zoff, res, problems)
        res["evals"] += 1
        res["counters"]["messages_rendered"] = res["counters"].get("messages_rendered", 0) + 1
        vals = [v for k, v in m.items() if k not in SKIPF]
        if any(gen.value_interesting(v) or (isinstance(v, str) and "\n" in v) for v in vals):
            res["nontrivial"].append(h(m))
        if res.get("sample") is None and len(vals) >= 2:
            try:
                res["sample"] = {"message": m, "compact": compact_format(dict(m))[:400]}
            except BaseException:
                pass  # (already reported above)
        if problems:
            res["violations"].append({"msg": problems[0], "mech": None, "detail": {"case": i, "problems": problems[:6], "message": m}})


BOM = b"\xef\xbb\xbf"  # the UTF-8 signature a text file opened with encoding="utf-8-sig" starts with

FOREIGN_KINDS = ["garbage_bytes", "text", "json_number", "json_array", "json_null", "json_string", "json_bool", "object_missing_field",
                 "empty_object", "empty_line", "invalid_utf8", "truncated_json", "json_nan"]


def gen_foreign(rng, kind):
    if kind == "garbage_bytes":
        return bytes(rng.choice([x for x in range(256) if x != 10]) for _ in range(rng.choice([rng.randint(1, 30), 70000, 200000])))
    if kind == "text":
        return rng.choice([b"hello world", b"Traceback (most recent call last):", b"  File \"x.py\", line 3", b"{not json}", b"[1, 2", b"'single'", b"{\"a\": }"])
    if kind == "json_number":
        return rng.choice([b"42", b"-1", b"3.5", b"1e5", b"0"])
    if kind == "json_array":
        return rng.choice([b"[1]", b"[]", b"[{\"task_uuid\": 1}]", b"[\"task_uuid\", \"task_level\", \"timestamp\"]"])
    if kind == "json_null":
        return b"null"
    if kind == "json_string":
        return rng.choice([b"\"text\"", b"\"task_uuid task_level timestamp\"", b"\"\""])
    if kind == "json_bool":
        return rng.choice([b"true", b"false"])
    if kind == "object_missing_field":
        m = gen_message(rng, simple=True)
        del m[rng.choice(["task_uuid", "task_level", "timestamp"])]
        return json.dumps(m).encode("utf-8")
    if kind == "empty_object":
        return b"{}"
    if kind == "empty_line":
        return rng.choice([b"", b"   ", b"\t"])
    if kind == "invalid_utf8":
        return b"{\"task_uuid\": \"\xff\xfe\"}"
    if kind == "truncated_json":
        return json.dumps(gen_message(rng, simple=True)).encode("utf-8")[: rng.randint(1, 25)]
    return rng.choice([b"NaN", b"Infinity", b"-Infinity"])


def run_cli(spec, res):
    for i in range(spec["lo"], spec["hi"]):
        rng = random.Random("%s:C20:c:%d" % (spec["seed"], i))
        compact = rng.random() < 0.5
        lines = []
        kinds = set()
        for _ in range(rng.randint(2, 14)):
            if rng.random() < 0.5:
                m = gen_message(rng)
                if rng.random() < 0.08:
                    # a very long line (above 64 KiB, sometimes around 1 MiB)
                    m["big"] = rng.choice(["x", "é", "word "]) * rng.choice([70000, 140000, 1100000])
                    kinds.add("long_message")
                ascii_only = rng.random() < 0.5
                if rng.random() < 0.12:
                    # text that is not valid Unicode (a file name decoded with surrogateescape) travels as an ASCII escape
                    m[gen_keyname(rng)] = rng.choice(["report-\udcff.txt", "\ud800", "a\udfffb\u2028c"])
                    ascii_only = True
                    kinds.add("surrogate_text")
                enc = json.dumps(m, ensure_ascii=ascii_only).encode("utf-8")
                lines.append(("eliot", m, enc))
            else:
                k = rng.choice(FOREIGN_KINDS)
                kinds.add(k)
                lines.append(("foreign", k, gen_foreign(rng, k)))
        data = b"".join(l[2] + b"\n" for l in lines)
        if rng.random() < 0.2 and lines[-1][2].strip() != b"":
            data = data[:-1]  # last line without newline
        import time as _time
        zname, zoff = rng.choice(ZONES)
        local = rng.random() < 0.25
        os.environ["TZ"] = zname  # the reference rendering below is computed in the same zone as the command runs in
        _time.tzset()
        env = dict(os.environ, PYTHONPATH=REPO, PYTHONIOENCODING="utf-8", PYTHONWARNINGS="ignore", TZ=zname)
        cmd = [sys.executable, "-c", "from eliot.prettyprint import _main; _main()"] + (["-c"] if compact else []) + (["--local-timezone"] if local else [])
        if local:
            # (timestamps whose local time would leave datetime's range are kept out of such streams)
            for l in lines:
                if l[0] == "eliot" and l[1]["timestamp"] > 2.5e11:
                    l[1]["timestamp"] = 1e9 + 0.25
            lines = [(l[0], l[1], json.dumps(l[1], ensure_ascii=True).encode("utf-8")) if l[0] == "eliot" else l for l in lines]
            data = b"".join(l[2] + b"\n" for l in lines)
        # other legal spellings of the same JSON texts on their lines (what l[2] decodes to stays the ground truth)
        vrng = random.Random("%s:C20:cv:%d" % (spec["seed"], i))
        style = vrng.choice([None, None, None, "utf-8-sig file", "windows tool", "concatenated logs", "whitespace"])
        nbom = nvar = 0
        if style is not None:
            final_newline = data.endswith(b"\n")
            wire = []
            for idx, l in enumerate(lines):
                b, end = l[2], b"\n"
                if style in ("utf-8-sig file", "windows tool"):
                    # the signature opens the stream (whatever its first line is); a Windows tool also ends lines with CR LF
                    if idx == 0:
                        b = BOM + b
                    if style == "windows tool":
                        end = b"\r\n"
                elif l[0] == "eliot":
                    if style == "concatenated logs":
                        if idx == 0 or vrng.random() < 0.4:
                            b = BOM + b
                    else:
                        b = vrng.choice([b"", b" ", b"\t", b"  \t "]) + b + vrng.choice([b"", b" ", b"\t", b"\r", b" \r"])
                        if vrng.random() < 0.2:
                            b = BOM + b
                if l[0] == "eliot" and b + end != l[2] + b"\n":
                    nvar += 1
                    nbom += b.startswith(BOM)
                wire.append(b + end)
            data = b"".join(wire)
            if not final_newline and lines[-1][2].strip() != b"":
                data = data[:-len(end)]
        try:
            p = subprocess.run(cmd, input=data, capture_output=True, env=env, timeout=120)
        except subprocess.TimeoutExpired:
            res["inconclusive"] = "eliot-prettyprint subprocess exceeded 120 s"
            continue
        problems = []
        out = p.stdout.decode("utf-8", "replace")
        if p.returncode != 0:
            err = p.stderr.decode("utf-8", "replace").strip().splitlines()
            problems.append("eliot-prettyprint exited with status %d: %s" % (p.returncode, err[-1] if err else ""))
        pos = 0
        fmt = compact_format if compact else pretty_format
        processed = 0
        for kind, a, enc in lines:
            if kind == "eliot":
                want = fmt(json.loads(enc), local) + "\n"
                if not out.startswith(want, pos):
                    problems.append("record %d: Eliot message not rendered as the API renders it (found %r)%s" % (
                        processed, out[pos:pos + 80], "; input style: %s" % style if style else ""))
                    break
                pos += len(want)
            else:
                mobj = re.compile(r"Not (JSON|an Eliot message): [^\n]*\n\n").match(out, pos)
                if not mobj:
                    problems.append("record %d: foreign line (%s, %r) not reported as Not JSON / Not an Eliot message (found %r)" % (processed, a, enc[:40], out[pos:pos + 80]))
                    break
                pos = mobj.end()
            processed += 1
        if not problems and pos != len(out):
            problems.append("unexpected extra output %r" % out[pos:pos + 80])
        res["evals"] += 1
        c = res["counters"]
        c["cli_streams"] = c.get("cli_streams", 0) + 1
        c["cli_input_lines"] = c.get("cli_input_lines", 0) + len(lines)
        c["cli_message_lines_in_variant_spelling"] = c.get("cli_message_lines_in_variant_spelling", 0) + nvar
        c["cli_message_lines_with_utf8_signature"] = c.get("cli_message_lines_with_utf8_signature", 0) + nbom
        if style is not None:
            res["sets"].setdefault("cli_input_styles", []).append(style)
        for k in kinds:
            res["sets"]["foreign_kinds"].append(k)
        if len(kinds) >= 2:
            res["nontrivial"].append(h([compact, [(l[0], l[1] if l[0] == "foreign" else None) for l in lines]]))
        mech = None
        if problems:
            # F6: JSON values that are not objects abort the command (AttributeError on .keys())
            res["violations"].append({"msg": problems[0], "mech": mech,
                                      "detail": {"case": i, "problems": problems[:5], "compact": compact, "input_style": style, "input_head": repr(data[:60]),
                                                 "input": [(l[0], l[1] if l[0] == "foreign" else "message", repr(l[2][:80])) for l in lines],
                                                 "stderr": p.stderr.decode("utf-8", "replace")[-600:]}})


# ---------------------------------------------------------------------------------------------------------------------------------
# part 'sigfile': logs that eliot itself wrote through a text file opened with encoding="utf-8-sig", read by the command

# The application whose log is read: a separate interpreter that logs a small generated program (actions with fields, messages,
# failing actions, tracebacks) through eliot's public API into a file it opened as text with the "utf-8-sig" codec.
SIGFILE_PRODUCER = r'''
import json, sys
import eliot
from eliot import FileDestination, add_destinations, log_message, start_action, to_file, write_traceback

job = json.loads(sys.stdin.read())
kw = {} if job["newline"] is None else {"newline": job["newline"]}
f = open(job["path"], job["mode"], encoding="utf-8-sig", **kw)
if job["setup"] == "FileDestination":
    add_destinations(FileDestination(file=f))
else:
    to_file(f)


def run(ops):
    for op in ops:
        if op[0] == "msg":
            log_message(message_type=op[1], **op[2])
        elif op[0] == "tb":
            try:
                raise RuntimeError(op[1])
            except RuntimeError:
                write_traceback()
        else:
            try:
                with start_action(action_type=op[1], **op[2]) as action:
                    run(op[3])
                    if op[4] == "fail":
                        raise ValueError(op[5])
                    if op[4] == "fields":
                        action.add_success_fields(**op[6])
            except ValueError:
                pass


run(job["ops"])
f.close()
'''


def gen_sig_fields(rng):
    out = {}
    for _ in range(rng.randint(0, 3)):
        r = rng.random()
        if r < 0.4:
            v = gen.gen_scalar(rng)
        elif r < 0.6:
            v = rng.choice(["Zürich", "中文 text", "\U0001f600", "line one\nline two", "a\ufeffb", "tab\there", "C:\\logs\\app.log"])
        else:
            v = gen.gen_value(rng, rng.choice([1, 2, 3]))
        out[gen_keyname(rng)] = v
    return out


def gen_sig_ops(rng, depth=0):
    ops = []
    for _ in range(rng.randint(1, 3)):
        r = rng.random()
        if r < 0.4 or depth >= 2:
            ops.append(["msg", rng.choice(["app:msg", "svc:état", "x"]), gen_sig_fields(rng)])
        elif r < 0.5:
            ops.append(["tb", rng.choice(["boom", "échec \U0001f600", "two\nlines"])])
        else:
            ops.append(["act", rng.choice(["app:act", "svc:requête", "x"]), gen_sig_fields(rng), gen_sig_ops(rng, depth + 1),
                        rng.choice(["ok", "ok", "fail", "fields"]), rng.choice(["bad value", "valeur refusée: 中", ""]), gen_sig_fields(rng)])
    return ops


def count_sig_ops(ops):
    return sum(1 if op[0] in ("msg", "tb") else 2 + count_sig_ops(op[3]) for op in ops)


def run_sigfile(spec, res):
    import tempfile
    import time as _time
    c = res["counters"]
    for i in range(spec["lo"], spec["hi"]):
        rng = random.Random("%s:C20:s:%d" % (spec["seed"], i))
        # how the log file came about: one run of the application; two runs appending to one file; two logs concatenated (cat a b)
        layout = ["one run", "one run", "two runs appending", "two logs concatenated"][i % 4]
        setup = "FileDestination" if i % 3 != 2 else "to_file"
        newline = [None, "\n", "\r\n", ""][(i // 2) % 4]  # the text file's newline translation (a Windows application writes CR LF)
        zname, zoff = rng.choice(ZONES)
        os.environ["TZ"] = zname  # (the reference renderings below are computed in the zone the command runs in)
        _time.tzset()
        env = _cli_env(zname)
        with tempfile.TemporaryDirectory(prefix="vf-c20-") as tmp:
            paths = [os.path.join(tmp, "app.log")] if layout != "two logs concatenated" else [os.path.join(tmp, "a.log"), os.path.join(tmp, "b.log")]
            jobs = [{"path": paths[0], "mode": "w", "setup": setup, "newline": newline, "ops": gen_sig_ops(rng)}]
            if layout == "two runs appending":
                jobs.append({"path": paths[0], "mode": "a", "setup": setup, "newline": newline, "ops": gen_sig_ops(rng)})
            elif layout == "two logs concatenated":
                jobs.append({"path": paths[1], "mode": "w", "setup": setup, "newline": newline, "ops": gen_sig_ops(rng)})
            failed = None
            for job in jobs:
                try:
                    p = subprocess.run([sys.executable, "-c", SIGFILE_PRODUCER], input=json.dumps(job).encode("ascii"), capture_output=True, env=env, timeout=120)
                except subprocess.TimeoutExpired:
                    failed = "the logging application exceeded 120 s"
                    break
                if p.returncode != 0:
                    failed = "the logging application ended with status %d: %s" % (p.returncode, p.stderr.decode("utf-8", "replace").strip().splitlines()[-1:])
                    break
            if failed:
                res["inconclusive"] = "part 'sigfile': " + failed
                continue
            data = b""
            for path in paths:
                with open(path, "rb") as fh:
                    data += fh.read()
            logpath = os.path.join(tmp, "whole.log")
            with open(logpath, "wb") as fh:
                fh.write(data)
            # what the file holds, read independently of eliot: lines of JSON text, the first one (of each log) behind the signature
            raw = data.split(b"\n")
            if raw and raw[-1] == b"":
                raw.pop()
            msgs = []
            nsig = 0
            readable = True
            for ln in raw:
                body = ln
                if body.startswith(BOM):
                    body = body[len(BOM):]
                    nsig += 1
                try:
                    m = json.loads(body.decode("utf-8"))
                except ValueError:
                    readable = False
                    break
                if not (isinstance(m, dict) and {"task_uuid", "task_level", "timestamp"} <= set(m)):
                    readable = False
                    break
                msgs.append(m)
            want_lines = sum(count_sig_ops(job["ops"]) for job in jobs)
            if not (readable and data.startswith(BOM) and nsig == (2 if layout == "two logs concatenated" else 1) and len(msgs) == want_lines):
                # (what eliot writes into files is C10's subject; this part only reads logs that came out as expected)
                c["sigfile_logs_not_as_expected"] = c.get("sigfile_logs_not_as_expected", 0) + 1
                continue
            c["sigfile_logs_written_by_eliot"] = c.get("sigfile_logs_written_by_eliot", 0) + 1
            res["sets"].setdefault("sigfile_layouts", []).append("%s, %s, newline=%r" % (layout, setup, newline))
            local_ok = all(m["timestamp"] < 2.5e11 for m in msgs)
            for compact, local in ((False, False), (True, False), (rng.random() < 0.5, True)):
                if local and not local_ok:
                    continue
                cmd = CLI_CMD + (["-c"] if compact else []) + (["--local-timezone"] if local else [])
                try:
                    with open(logpath, "rb") as fh:  # eliot-prettyprint < whole.log
                        p = subprocess.run(cmd, stdin=fh, capture_output=True, env=env, timeout=120)
                except subprocess.TimeoutExpired:
                    res["inconclusive"] = "eliot-prettyprint subprocess exceeded 120 s"
                    continue
                out = p.stdout.decode("utf-8", "replace")
                problems = []
                if p.returncode != 0:
                    err = p.stderr.decode("utf-8", "replace").strip().splitlines()
                    problems.append("eliot-prettyprint exited with status %d: %s" % (p.returncode, err[-1] if err else ""))
                fmt, chk = (compact_format, check_compact) if compact else (pretty_format, check_pretty)
                pos = 0
                for n, (m, ln) in enumerate(zip(msgs, raw)):
                    where = "record %d (%s of a log that eliot wrote through a text file opened with encoding='utf-8-sig'%s)" % (
                        n, "the message behind the UTF-8 signature EF BB BF at the start" if ln.startswith(BOM) else "a later message",
                        "; %s" % layout if layout != "one run" else "")
                    want = fmt(copy.deepcopy(m), local) + "\n"
                    if not out.startswith(want, pos):
                        problems.append("%s: Eliot message not rendered as the API renders it (found %r)" % (where, out[pos:pos + 100]))
                        break
                    pos += len(want)
                    try:
                        lts = [(datetime.datetime.fromtimestamp(m["timestamp"], tz=datetime.timezone.utc) + datetime.timedelta(minutes=zoff)).replace(tzinfo=None).isoformat(sep="T")] if local else None
                    except (OverflowError, ValueError):
                        lts = False
                    if lts is not False and all(not any(ch.isspace() for ch in k) and "=" not in k for k in m):
                        sub = []
                        chk(m, want[:-1], sub, lts)
                        if sub:
                            problems.append("%s: %s" % (where, sub[0]))
                            break
                        c["sigfile_records_reparsed"] = c.get("sigfile_records_reparsed", 0) + 1
                    if ln.startswith(BOM):
                        c["sigfile_signature_messages_rendered"] = c.get("sigfile_signature_messages_rendered", 0) + 1
                if not problems and pos != len(out):
                    problems.append("unexpected extra output %r" % out[pos:pos + 80])
                res["evals"] += 1
                c["cli_streams"] = c.get("cli_streams", 0) + 1
                c["cli_input_lines"] = c.get("cli_input_lines", 0) + len(msgs)
                c["sigfile_cli_runs"] = c.get("sigfile_cli_runs", 0) + 1
                if len(msgs) >= 3:
                    res["nontrivial"].append(h(["sigfile", compact, local, layout, setup, newline, jobs[0]["ops"]]))
                if problems:
                    res["violations"].append({"msg": problems[0], "mech": None,
                                              "detail": {"part": "sigfile", "case": i, "problems": problems[:4], "compact": compact, "local_timezone": local,
                                                         "layout": layout, "setup": setup, "newline": newline, "input_head": repr(data[:100]),
                                                         "program": jobs[0]["ops"], "stderr": p.stderr.decode("utf-8", "replace")[-600:]}})


def _cli_env(zname="UTC0", unbuffered_removed=False):
    env = dict(os.environ, PYTHONPATH=REPO, PYTHONIOENCODING="utf-8", PYTHONWARNINGS="ignore", TZ=zname)
    if unbuffered_removed:
        env.pop("PYTHONUNBUFFERED", None)
    return env


CLI_CMD = [sys.executable, "-c", "from eliot.prettyprint import _main; _main()"]


def run_keylen(spec, res):
    """Field names of EVERY length 1..maxlen: rendered by both formatters (re-parsed) and streamed through the CLI in both modes."""
    import time as _time
    os.environ["TZ"] = "UTC0"
    _time.tzset()
    for i in range(spec["lo"], spec["hi"]):
        rng = random.Random("%s:C20:k:%d" % (spec["seed"], i))
        alphabet = ["abcdefghijklmnopqrstuvwxyz_0123456789", "abcXYZ019_-.:/|\\\"'é中", "kK_é中\U0001f600.-"][i % 3]
        msgs = []
        c = res["counters"]
        for n in range(1, spec["maxlen"] + 1):
            m = {"task_uuid": "keylen-%04d-4000-8000-%012d" % (n, rng.randint(0, 10**9)), "task_level": [1, n], "timestamp": 1425356800.0 + n + rng.choice([0, 0.5, 0.000001]),
                 "message_type": "app:keylen"}
            while True:
                k = "".join(rng.choice(alphabet) for _ in range(n))
                if k not in SKIPF:
                    break
            r = rng.random()
            if r < 0.3:
                v = gen.gen_scalar(rng)
            elif r < 0.45:
                v = "\n".join(gen.gen_text(rng, long_ok=False) for _ in range(rng.randint(2, 4)))
            elif r < 0.6:
                v = " ".join(rng.choice(["alpha", "beta", "gamma", "delta", "x" * 30]) for _ in range(rng.randint(5, 30)))
            else:
                v = gen.gen_value(rng, rng.choice([1, 2, 3]))
            m[k] = v
            if rng.random() < 0.3:
                m[gen_keyname(rng)] = gen.gen_scalar(rng)
            msgs.append(m)
            problems = []
            for name, fn, chk in (("compact_format", compact_format, check_compact), ("pretty_format", pretty_format, check_pretty)):
                try:
                    out = fn(dict(m))
                except BaseException as e:
                    problems.append("%s raised %r for a message with a field name of %d characters" % (name, e, n))
                    continue
                if not isinstance(out, str):
                    problems.append("%s returned %s" % (name, type(out).__name__))
                    continue
                chk(m, out, problems)
            res["evals"] += 1
            c["messages_rendered"] = c.get("messages_rendered", 0) + 1
            c["keylen_messages"] = c.get("keylen_messages", 0) + 1
            res["sets"].setdefault("field_name_lengths", []).append("%03d" % n)
            res["nontrivial"].append(h(["keylen", m]))
            if problems and len(res["violations"]) < 4:
                res["violations"].append({"msg": problems[0], "mech": None, "detail": {"part": "keylen", "case": i, "name_length": n, "problems": problems[:4], "message": m}})
        # the same messages as one stream through the command, in both modes
        data = b"".join(json.dumps(m, ensure_ascii=(j % 2 == 0)).encode("utf-8") + b"\n" for j, m in enumerate(msgs))
        for compact in (False, True):
            try:
                p = subprocess.run(CLI_CMD + (["-c"] if compact else []), input=data, capture_output=True, env=_cli_env(), timeout=120)
            except subprocess.TimeoutExpired:
                res["inconclusive"] = "eliot-prettyprint subprocess exceeded 120 s"
                continue
            out = p.stdout.decode("utf-8", "replace")
            problems = []
            if p.returncode != 0:
                err = p.stderr.decode("utf-8", "replace").strip().splitlines()
                problems.append("eliot-prettyprint exited with status %d: %s" % (p.returncode, err[-1] if err else ""))
            # every message shows up, in order, with its header and its field name (the renderings themselves are judged above)
            pos = 0
            missing = []
            for m in msgs:
                head = (m["task_uuid"] + "/1/%d " % m["task_level"][1]) if compact else ("%s -> /1/%d\n" % (m["task_uuid"], m["task_level"][1]))
                at = out.find(head, pos)
                if at < 0:
                    missing.append(m["task_level"][1])
                    continue
                pos = at + len(head)
                k = [k for k in m if k not in SKIPF][0]
                nxt = out.find("keylen-", pos)
                body = out[pos:nxt if nxt >= 0 else len(out)]
                if ((" %s=" % k) if compact else ("\n  %s: " % k)) not in body:
                    problems.append("the command's rendering of the message with a %d-character field name does not show that field" % len(k))
            if missing:
                problems.append("the command did not render the messages with field-name lengths %s%s (%d of %d; it got %d bytes of input)" % (
                    missing[:6], "..." if len(missing) > 6 else "", len(missing), len(msgs), len(data)))
            res["evals"] += 1
            c["cli_streams"] = c.get("cli_streams", 0) + 1
            c["cli_input_lines"] = c.get("cli_input_lines", 0) + len(msgs)
            c["keylen_cli_streams"] = c.get("keylen_cli_streams", 0) + 1
            if problems and len(res["violations"]) < 6:
                res["violations"].append({"msg": problems[0], "mech": None,
                                          "detail": {"part": "keylen", "case": i, "compact": compact, "problems": problems[:4],
                                                     "stderr": p.stderr.decode("utf-8", "replace")[-600:]}})


def _proc_state(pid):
    """(state letter, cpu ticks used) of a process, or None."""
    try:
        with open("/proc/%d/stat" % pid, "rb") as f:
            rest = f.read().rsplit(b")", 1)[1].split()
        return rest[0].decode("ascii"), int(rest[11]) + int(rest[12])
    except (OSError, IndexError, ValueError):
        return None


def run_live(spec, res):
    """'processes its input line by line': a live producer keeps the pipe open; what it has delivered is rendered meanwhile."""
    import array
    import fcntl
    import select
    import termios
    import time as _time
    for i in range(spec["lo"], spec["hi"]):
        rng = random.Random("%s:C20:l:%d" % (spec["seed"], i))
        compact = i % 2 == 1
        n = rng.choice([2500, 3200, 4000])
        notjson_at, noteliot_at = rng.sample(range(1, 10), 2)
        lines = []
        uuids = []
        for j in range(n):
            if j == notjson_at or (j > 10 and j % 997 == 0):
                lines.append(b"this line is NOT JSON, number %d" % j)
            elif j == noteliot_at or (j > 10 and j % 1201 == 0):
                lines.append(json.dumps({"foreign": "json object", "n": j}).encode("utf-8"))
            else:
                u = "live%05d-0000-4000-8000-%012d" % (j, rng.randint(0, 10**9))
                uuids.append(u)
                text = "message number %d %s" % (j, rng.choice(["\nwith a second line ", " on one line "]))
                text += "x" * (110 - len(text))
                m = {"task_uuid": u, "task_level": [1, j % 9 + 1], "timestamp": 1443193754.25 + j, "message_type": "live:stream", "text": text,
                     "payload": {"n": j, "list": [j, j + 1]}}
                lines.append(json.dumps(m).encode("utf-8"))
        data = b"".join(l + b"\n" for l in lines)
        # every rendering shows the text field (>= 100 characters): the expected output is far larger than any stdio buffer
        least_output = 100 * len(uuids)
        first = [u for u in uuids if int(u[4:9]) < 10]
        wanted = [u.encode("ascii") for u in first] + [b"Not JSON: ", b"Not an Eliot message: "]
        p = subprocess.Popen(CLI_CMD + (["-c"] if compact else []), stdin=subprocess.PIPE, stdout=subprocess.PIPE, stderr=subprocess.PIPE,
                             env=_cli_env(unbuffered_removed=True))
        fin, fout, ferr = p.stdin.fileno(), p.stdout.fileno(), p.stderr.fileno()
        for fd in (fin, fout, ferr):
            os.set_blocking(fd, False)
        bufs = {fout: bytearray(), ferr: bytearray()}
        open_r = [fout, ferr]
        off = 0
        seen_while_open = False
        quiet = 0
        last = None
        verdict = None
        start = _time.monotonic()
        try:
            while verdict is None:
                r, w_, _ = select.select(open_r, [fin] if off < len(data) else [], [], 0.3)
                progressed = False
                for fd in r:
                    try:
                        b = os.read(fd, 1 << 16)
                    except BlockingIOError:
                        continue
                    if b:
                        bufs[fd] += b
                        progressed = True
                    else:
                        open_r.remove(fd)
                if w_:
                    try:
                        off += os.write(fin, data[off:off + 65536])
                        progressed = True
                    except BlockingIOError:
                        pass
                    except OSError:
                        off = len(data)  # the reader has gone away (judged below)
                if not seen_while_open:
                    headpart = bytes(bufs[fout][:1 << 17])
                    seen_while_open = all(w in headpart for w in wanted)
                if seen_while_open and off >= len(data):
                    verdict = "rendered"
                elif fout not in open_r and p.poll() is not None:
                    verdict = "exited"
                elif off >= len(data) and not progressed:
                    # everything has been delivered: is the command waiting for more although the first renderings are missing?
                    pending = array.array("i", [0])
                    fcntl.ioctl(fin, termios.FIONREAD, pending)
                    st = _proc_state(p.pid)
                    if pending[0] == 0 and st is not None and st[0] == "S" and st == last:
                        quiet += 1
                    else:
                        quiet = 0
                    last = st
                    if quiet >= 4:
                        verdict = "waiting"
                else:
                    quiet = 0
                    last = None
                if verdict is None and _time.monotonic() - start > 90:
                    verdict = "timeout"
            early = len(bufs[fout])
            # the producer ends: the rest arrives, the command exits
            try:
                p.stdin.close()
            except OSError:
                pass
            deadline = _time.monotonic() + 120
            while open_r and _time.monotonic() < deadline:
                r, _, _ = select.select(open_r, [], [], 1.0)
                for fd in r:
                    try:
                        b = os.read(fd, 1 << 16)
                    except BlockingIOError:
                        continue
                    if b:
                        bufs[fd] += b
                    else:
                        open_r.remove(fd)
            try:
                code = p.wait(timeout=max(1.0, deadline - _time.monotonic()))
            except subprocess.TimeoutExpired:
                code = None
        finally:
            if p.poll() is None:
                p.kill()
                p.wait()
            for f in (p.stdout, p.stderr):
                try:
                    f.close()
                except OSError:
                    pass
        out = bytes(bufs[fout])
        err = bytes(bufs[ferr]).decode("utf-8", "replace")
        problems = []
        c = res["counters"]
        res["evals"] += 1
        if verdict == "timeout":
            res["inconclusive"] = "live stream: neither the first renderings nor a command waiting for input within 90 s (%d of %d bytes delivered, %d bytes of output)" % (
                off, len(data), early)
            continue
        if verdict == "waiting":
            lack = [w.decode("ascii") for w in wanted if w not in out[:early][:1 << 17]]
            problems.append("%d complete lines (%d bytes, renderings of at least %d bytes) were delivered and consumed and the command sleeps waiting for more with stdin still "
                            "open, but only %d bytes of output have appeared; not rendered/reported yet: %s of the first ten lines - the input is not processed line by line%s" % (
                                len(lines), len(data), least_output, early, lack[:4], " (all %d bytes came out once stdin was closed)" % len(out) if len(out) > early else ""))
        elif verdict == "exited":
            problems.append("the command ended with status %r while its stdin was still open (%d of %d bytes delivered): %s" % (code, off, len(data), err.strip().splitlines()[-1:]))
        else:
            c["live_first_lines_rendered_while_open"] = c.get("live_first_lines_rendered_while_open", 0) + len(wanted)
        if verdict != "exited":
            if code is None:
                res["inconclusive"] = "live stream: the command did not exit within 120 s of its stdin being closed"
            elif code != 0:
                problems.append("eliot-prettyprint exited with status %d: %s" % (code, err.strip().splitlines()[-1:]))
            else:
                got = set(re.findall(rb"live\d{5}-0000-4000-8000-\d{12}", out))
                lost = [u for u in uuids if u.encode("ascii") not in got]
                if lost:
                    problems.append("%d of the %d messages of the stream were never rendered, first %s" % (len(lost), len(uuids), lost[0]))
                nrep = out.count(b"Not JSON: ") + out.count(b"Not an Eliot message: ")
                if nrep != len(lines) - len(uuids):
                    problems.append("%d foreign lines in the stream, %d reports" % (len(lines) - len(uuids), nrep))
        c["live_streams"] = c.get("live_streams", 0) + 1
        c["live_lines_delivered"] = c.get("live_lines_delivered", 0) + len(lines)
        res["nontrivial"].append(h(["live", compact, n, notjson_at, noteliot_at]))
        if problems:
            res["violations"].append({"msg": problems[0], "mech": None,
                                      "detail": {"part": "live", "case": i, "compact": compact, "lines": len(lines), "input_bytes": len(data), "verdict": verdict,
                                                 "output_bytes_while_stdin_open": early, "output_bytes_total": len(out), "problems": problems[:4], "stderr": err[-600:]}})


def run_filter(spec, res):
    for i in range(spec["lo"], spec["hi"]):
        rng = random.Random("%s:C20:x:%d" % (spec["seed"], i))
        msgs = []
        for j in range(rng.randint(1, 12)):
            m = gen_message(rng)
            m["n"] = j
            msgs.append(m)
        data = "".join(json.dumps(m, ensure_ascii=rng.random() < 0.5) + "\n" for m in msgs).encode("utf-8")
        mode = rng.choice(["identity", "skip_odd", "skip_type", "field", "datetime", "missing_field", "falsy", "nested_datetime", "text", "tuple", "genexp", "lambda", "comprehension_skip"])
        expr = {"identity": "J", "skip_odd": "SKIP if J['n'] % 2 else J", "skip_type": "SKIP if 'action_type' in J else J",
                "field": "J['task_level']", "datetime": "datetime.utcfromtimestamp(0) + timedelta(seconds=J['n'])",
                "missing_field": "J.get('no_such_field_zz')", "falsy": "[None, 0, '', [], {}, False][J['n'] % 6]",
                "nested_datetime": "{'when': [datetime(2020, 2, 29, 12, 0, J['n'] % 60)], 'n': J['n'], 'd': timedelta(minutes=J['n']).total_seconds()}",
                "text": "J.get('message_type') or 'none-\u00e9\U0001f600'", "tuple": "(J['n'], J['task_uuid'], SKIP is SKIP)",
                # expressions whose sub-expressions have a scope of their own (generator expressions, lambdas, comprehensions)
                "genexp": "sorted(k for k in J if isinstance(J[k], (int, str)))", "lambda": "sorted(J, key=lambda k: (len(k), k))[:3] + [(lambda: J['n'])()]",
                "comprehension_skip": "SKIP if any(J['n'] % d == 0 for d in (2, 3)) else [timedelta(seconds=s).total_seconds() for s in range(J['n'] % 3)]"}[mode]
        env = dict(os.environ, PYTHONPATH=REPO, PYTHONIOENCODING="utf-8", PYTHONWARNINGS="ignore")
        try:
            p = subprocess.run([sys.executable, "-m", "eliot.filter", expr], input=data, capture_output=True, env=env, timeout=120)
        except subprocess.TimeoutExpired:
            res["inconclusive"] = "eliot.filter subprocess exceeded 120 s"
            continue
        problems = []
        if p.returncode != 0:
            problems.append("eliot.filter exited with status %d: %s" % (p.returncode, p.stderr.decode("utf-8", "replace")[-300:]))
        outl = p.stdout.decode("utf-8", "replace").split("\n")
        if outl and outl[-1] == "":
            outl.pop()
        if mode == "identity":
            want = msgs
        elif mode == "skip_odd":
            want = [m for m in msgs if m["n"] % 2 == 0]
        elif mode == "skip_type":
            want = [m for m in msgs if "action_type" not in m]
        elif mode == "field":
            want = [m["task_level"] for m in msgs]
        elif mode == "missing_field":
            want = [None for m in msgs]  # the JSON encoding of the expression's value, null, for every line
        elif mode == "falsy":
            want = [[None, 0, "", [], {}, False][m["n"] % 6] for m in msgs]
        elif mode == "nested_datetime":
            want = [{"when": [datetime.datetime(2020, 2, 29, 12, 0, m["n"] % 60).isoformat()], "n": m["n"], "d": float(m["n"] * 60)} for m in msgs]
        elif mode == "text":
            want = [m.get("message_type") or "none-\u00e9\U0001f600" for m in msgs]
        elif mode == "tuple":
            want = [[m["n"], m["task_uuid"], True] for m in msgs]
        elif mode == "genexp":
            want = [sorted(k for k in m if isinstance(m[k], (int, str))) for m in msgs]
        elif mode == "lambda":
            want = [sorted(m, key=lambda k: (len(k), k))[:3] + [m["n"]] for m in msgs]
        elif mode == "comprehension_skip":
            want = [[float(s_) for s_ in range(m["n"] % 3)] for m in msgs if not any(m["n"] % d == 0 for d in (2, 3))]
        else:
            want = [(datetime.datetime(1970, 1, 1) + datetime.timedelta(seconds=m["n"])).isoformat() for m in msgs]
        got = []
        for ln in outl:
            try:
                got.append(json.loads(ln))
            except ValueError:
                problems.append("filter output line is not JSON: %r" % ln[:100])
        if len(got) != len(want):
            problems.append("filter %r wrote %d lines, expected %d" % (expr, len(got), len(want)))
        else:
            for g, w in zip(got, want):
                if not json_equal(g, w):
                    problems.append("filter %r output %r, expected %r" % (expr, g, w))
                    break
        res["evals"] += 1
        c = res["counters"]
        c["filter_runs"] = c.get("filter_runs", 0) + 1
        res["nontrivial"].append(h([mode, msgs]))
        if problems:
            res["violations"].append({"msg": problems[0], "mech": None, "detail": {"case": i, "problems": problems[:5], "expr": expr}})


def run_case(spec):
    res = {"evals": 0, "nontrivial": [], "counters": {}, "violations": [], "sample": None, "sets": {"foreign_kinds": []}}
    {"format": run_format, "cli": run_cli, "filter": run_filter, "keylen": run_keylen, "live": run_live, "sigfile": run_sigfile}[spec["part"]](spec, res)
    return res


def finalize(agg, tier):
    c = agg["counters"]
    if c.get("messages_rendered", 0) < 1000 or c.get("cli_streams", 0) < 50 or c.get("filter_runs", 0) < 10:
        return "too few messages / streams / filter runs"
    if len(agg["sets"].get("foreign_kinds", {})) < len(FOREIGN_KINDS):
        return "not every kind of foreign line was fed to the CLI"
    if len(agg["sets"].get("field_name_lengths", {})) < 120 or c.get("keylen_cli_streams", 0) < 2:
        return "part 'keylen' did not cover every field-name length 1..120 / did not stream them through the CLI"
    if c.get("cli_message_lines_with_utf8_signature", 0) == 0 or c.get("cli_message_lines_in_variant_spelling", 0) <= c.get("cli_message_lines_with_utf8_signature", 0):
        return "part 'cli' never fed the command a message line behind a UTF-8 signature / in another spelling (CRLF, surrounding whitespace)"
    if c.get("renderings_after_pretty_format_of_same_object", 0) == 0 or c.get("same_object_messages_with_type_or_status", 0) == 0 or c.get("readonly_mapping_renderings", 0) == 0:
        return "part 'format' never rendered one message object again after pretty_format / never rendered a read-only view"
    if c.get("live_streams", 0) == 0:
        return "part 'live' never fed the command through a pipe that stayed open"
    if c.get("sigfile_logs_written_by_eliot", 0) == 0 or c.get("sigfile_signature_messages_rendered", 0) == 0 or c.get("sigfile_records_reparsed", 0) == 0:
        return "part 'sigfile' never fed the command a log that eliot wrote through a utf-8-sig text file / never saw the message behind the signature rendered"
    if c.get("same_object_renderings_compared_with_fresh_copy", 0) == 0 or c.get("same_object_snapshots_compared", 0) == 0:
        return "part 'format' never compared a repeated rendering with the rendering of a fresh copy / never compared the caller's dict with its snapshot"
    return None
