"""
Concurrent workloads shared by C02 and C05:

  * thread programs: ProgGen programs extended with "spawn" nodes (threads with their own tasks, continue_task or
    preserve_context hand-offs, joined before the enclosing action ends), executed by vf.interp.Interp under the
    line-granular scheduler (vf.sched) or under plain OS scheduling;
  * coroutine programs executed on a real asyncio loop where every await of the workload parks on a gate future and
    a driver releases one parked future at a time in a seeded order (the interleaving).
"""

import asyncio
import random
import threading

from eliot import Action, add_destinations, current_action, log_message, preserve_context, remove_destination, start_action
from eliot.parse import Parser

from . import excs, gen, oracles
from .interp import Interp
from .tape import Recorder, Tape

# --------------------------------------------------------------------------- thread programs


def gen_thread_program(rng, max_threads=3, size="small"):
    """A ProgGen program with spawn nodes. Returns (program, number of threads it starts)."""
    g = gen.ProgGen(rng, max_depth=3, max_nodes=6 if size == "small" else 16, value_depth=0, allow_remote=False, allow_tb=False,
                    act_styles=["with", "ctx_finish", "run_finish", "start_task"], msg_styles=["log_message", "action.log", "stdlib"], fail_p=0.25,
                    allow_cross=False)
    spawned = [0]

    def body(n):
        out = []
        for _ in range(n):
            if rng.random() < 0.5:
                out.append(g.msg())
            else:
                a = g.act(99)
                a["children"] = [g.msg() for _ in range(rng.randint(0, 2))]
                out.append(a)
        return out

    def spawn():
        k = rng.randint(min(2, max(1, max_threads - spawned[0])), max(1, max_threads - spawned[0]))
        spawned[0] += k
        return {"k": "spawn", "nid": g._nid(), "mode": rng.choice(["own_task", "own_task", "continue", "preserve"]),
                "threads": [body(rng.randint(1, 2 if size == "small" else 4)) for _ in range(k)]}

    root = g.act(99, force_style="with")
    root["outcome"] = "ok"
    root.pop("exc", None)
    root["children"] = body(rng.randint(0, 1)) + [spawn()] + body(rng.randint(0, 1))
    if spawned[0] < max_threads and rng.random() < 0.5:
        inner = g.act(99, force_style=rng.choice(["with", "ctx_finish"]))
        inner["children"] = [spawn()] + body(1)
        root["children"].append(inner)
    prog = [root]
    if rng.random() < 0.4:
        prog = body(1) + prog
    return prog, spawned[0]


class ConcInterp(Interp):
    """Interp plus the 'spawn' node."""

    def __init__(self, *a, **kw):
        self.thread_factory = kw.pop("thread_factory", threading.Thread)
        Interp.__init__(self, *a, **kw)
        self.thread_errors = []

    def exec_node(self, node, gt_children, cur):
        if node["k"] == "spawn":
            self.probe(cur, "before spawn %s" % node["nid"])
            self.exec_spawn(node, gt_children, cur)
            self.probe(cur, "after joining spawn %s" % node["nid"])
            return
        return Interp.exec_node(self, node, gt_children, cur)

    def exec_spawn(self, node, gt_children, cur):
        mode = node["mode"]
        if cur is None and mode != "own_task":
            mode = "own_task"
        self.count("spawn:" + mode, len(node["threads"]))
        targets = []
        for j, children in enumerate(node["threads"]):
            if mode == "own_task":
                def target(children=children):
                    self.probe(None, "first probe in a new thread (spawn %s)" % node["nid"])
                    self.exec_children(children, None, None, top=True)
                    self.probe(None, "last probe in thread (spawn %s)" % node["nid"])
            elif mode == "continue":
                gt = {"kind": "action", "type": "eliot:remote_task", "nid": "%s.%d" % (node["nid"], j), "style": "remote:continue_task",
                      "start": {}, "status": "started", "end": None, "children": [], "remote": True}
                ok, tid = self.api("serialize_task_id", cur.serialize_task_id)
                if not ok:
                    continue
                self._attach(gt_children, gt)
                self.note("reserved", uuid=cur.task_uuid, tid=tid.decode("ascii"), nid=gt["nid"])

                def target(children=children, gt=gt, tid=tid):
                    self.probe(None, "first probe in a new thread (spawn %s)" % node["nid"])
                    ok, action = self.api("continue_task", Action.continue_task, task_id=tid)
                    if ok:
                        self._run_remote_action({"nid": gt["nid"], "children": children, "outcome": "ok"}, gt, action, None)
            else:
                gt = {"kind": "action", "type": "eliot:remote_task", "nid": "%s.%d" % (node["nid"], j), "style": "remote:preserve_context",
                      "start": {}, "status": "started", "end": None, "children": [], "remote": True}

                def f(children=children, gt=gt):
                    action = current_action()
                    if action is None or action is cur:
                        self.viol("preserved callable did not run in a new action (spawn %s)" % node["nid"])
                    self._body({"nid": gt["nid"], "children": children, "outcome": "ok"}, gt, action)
                ok, gfn = self.api("preserve_context", preserve_context, f)
                if not ok:
                    continue
                self._attach(gt_children, gt)

                def target(gfn=gfn, gt=gt):
                    self.probe(None, "first probe in a new thread (spawn %s)" % node["nid"])
                    out = None
                    try:
                        gfn()
                    except BaseException as e:
                        out = e
                        self.crossmap.pop(id(e), None)
                    self._finish_gt(gt, {}, out, {})
                    self.probe(None, "after the preserved callable (spawn %s)" % node["nid"])
            targets.append(target)
        threads = []
        for t in targets:
            def guarded(t=t):
                try:
                    t()
                except BaseException as e:
                    if type(e).__name__ == "SchedAbort":
                        raise
                    self.thread_errors.append(e)
            th = self.thread_factory(target=guarded)
            threads.append(th)
        for th in threads:
            th.start()
        for th in threads:
            th.join()


def sort_concurrent(node):
    """Ground truth and parsed forests are compared modulo the order of siblings that ran concurrently: only top-level
    trees are concurrent here (own-task threads), so nothing inside a tree needs re-ordering."""
    return node


def run_thread_program(prog, thread_factory=threading.Thread):
    """Run under whatever scheduling is in effect. Returns (problems, interp, tape)."""
    tape = Tape()
    rec = Recorder(tape, "rec")
    add_destinations(rec)
    it = ConcInterp(tape=tape, thread_factory=thread_factory)
    try:
        forest = it.run(prog)
    finally:
        remove_destination(rec)
    problems = [v["msg"] for v in it.violations]
    for e in it.thread_errors:
        problems.append("a spawned thread raised %r" % (e,))
    return problems, it, tape, forest


def judge_thread_run(tape, forest, problems, placement=True):
    msgs = tape.msgs("rec")
    try:
        tasks = list(Parser.parse_stream(msgs))
        problems += oracles.compare_forest(forest, tasks)
    except BaseException as e:
        problems.append("parsing the merged tape raised %r" % (e,))
    if placement:
        entries = []
        for e in tape.entries:
            if e["k"] == "msg":
                entries.append(("msg", e["m"]))
            elif e["k"] == "reserved" and e.get("tid"):
                uuid, lvl = e["tid"].split("@")
                entries.append(("reserve", uuid, [int(x) for x in lvl.split("/") if x]))
        # threads emit concurrently: "end message is the last entry below the action" still holds because work is joined first
        problems += oracles.check_placement(entries)
    return len(msgs)


# --------------------------------------------------------------------------- coroutine programs


def gen_async_program(rng, max_tasks=6):
    ids = [0]

    def nid():
        ids[0] += 1
        return ids[0]
    budget = [max_tasks]

    def body(adepth, sdepth):
        """adepth: nesting of actions on this path; sdepth: nesting of spawns."""
        out = []
        for _ in range(rng.randint(1, 3)):
            r = rng.random()
            if r < 0.2:
                out.append({"k": "msg", "nid": nid()})
            elif r < 0.5:
                out.append({"k": "await", "nid": nid()})
            elif r < 0.56 and sdepth >= 1:
                # enter the context of the shared root action from inside a task (Action.context() / run() of one action
                # used by several tasks whose own current actions differ)
                out.append({"k": "rootctx", "nid": nid(), "via": rng.choice(["context", "context", "run"]),
                            "children": [{"k": "msg", "nid": nid()}, {"k": "await", "nid": nid()}, {"k": "msg", "nid": nid()}]})
            elif r < 0.6 and budget[0] >= 1:
                # a task that is cancelled while it waits inside an action of its own
                budget[0] -= 1
                out.append({"k": "cancel", "nid": nid(), "act": nid(), "before": [{"k": "msg", "nid": nid()} for _ in range(rng.randint(0, 2))],
                            "park": nid(), "own_park": nid() if rng.random() < 0.5 else None, "never": nid()})
            elif r < 0.8 and adepth < 5:
                n = {"k": "act", "nid": nid(), "children": body(adepth + 1, sdepth), "outcome": "ok"}
                if rng.random() < 0.25:
                    n["outcome"] = "raise"
                    n["exc"] = rng.choice(["ValueError", "UserError", "KeyError"])
                out.append(n)
            elif budget[0] >= 2 and sdepth < 2:
                k = rng.randint(2, min(3, budget[0]))
                budget[0] -= k
                tasks = [body(adepth, sdepth + 1) for _ in range(k)]
                for tb in tasks:  # every task yields to the loop at least once, otherwise there is nothing to interleave
                    if not any(x["k"] == "await" for x in tb):
                        tb.insert(rng.randint(0, len(tb)), {"k": "await", "nid": nid()})
                out.append({"k": "spawn", "nid": nid(), "how": rng.choice(["create_task", "ensure_future", "gather", "taskgroup"]), "tasks": tasks})
            else:
                out.append({"k": "msg", "nid": nid()})
        return out

    def nested_task():
        """with a: await; with b: await; ... : blocks of different tasks overlap in non-LIFO order at depth >= 2."""
        inner = [{"k": "await", "nid": nid()}, {"k": "msg", "nid": nid()}]
        for _ in range(rng.randint(1, 3)):
            inner = [{"k": "await", "nid": nid()}, {"k": "act", "nid": nid(), "children": inner, "outcome": "ok"}, {"k": "await", "nid": nid()},
                     {"k": "msg", "nid": nid()}]
        return inner
    root = {"k": "act", "nid": nid(), "children": [], "outcome": "ok"}
    root["children"] = body(1, 0)
    if not any(n["k"] == "spawn" for n in root["children"]) or rng.random() < 0.5:
        budget[0] -= 2
        root["children"].insert(rng.randint(0, len(root["children"])), {"k": "spawn", "nid": nid(), "how": rng.choice(["create_task", "gather", "taskgroup"]),
                                                                         "tasks": [nested_task() for _ in range(rng.randint(2, 3))]})
    prog = [root]
    if rng.random() < 0.3:
        prog.append({"k": "msg", "nid": nid()})
    return prog


class Gate(object):
    def __init__(self, rng):
        self.rng = rng
        self.parked = []
        self.order = []

    async def point(self, nid):
        fut = asyncio.get_running_loop().create_future()
        self.parked.append((nid, fut))
        await fut


class AsyncInterp(object):
    def __init__(self, gate, tape):
        self.gate = gate
        self.tape = tape
        self.forest = []
        self.violations = []
        self.probes = 0
        self.active_contexts = 0
        self.max_active = 0

    def viol(self, msg):
        if len(self.violations) < 10:
            self.violations.append(msg)

    def probe(self, expected, where):
        self.probes += 1
        got = current_action()
        if got is not expected:
            self.viol("current_action() is %r, expected %r (%s)" % (got, expected, where))

    async def run_children(self, children, gt_children, cur, strand):
        for node in children:
            self.probe(cur, "before node %s" % node["nid"])
            k = node["k"]
            if k == "msg":
                log_message(message_type="co:m", nid=node["nid"])
                gt = {"kind": "message", "type": "co:m", "fields": {"nid": node["nid"]}, "nid": node["nid"], "strand": strand}
                (self.forest if cur is None else gt_children).append(gt)
            elif k == "await":
                await self.gate.point(node["nid"])
            elif k == "rootctx":
                root, root_gt = self.root
                sub_strand = "%s/rootctx%s" % (strand, node["nid"])
                if node["via"] == "context":
                    with root.context():
                        self.probe(root, "inside the shared action's context() (node %s)" % node["nid"])
                        await self.run_children(node["children"], root_gt["children"], root, sub_strand)
                        self.probe(root, "inside the shared action's context() after children (node %s)" % node["nid"])
                else:
                    # run() takes a plain function: log synchronously inside it
                    def inside():
                        self.probe(root, "inside the shared action's run() (node %s)" % node["nid"])
                        for ch in node["children"]:
                            if ch["k"] == "msg":
                                log_message(message_type="co:m", nid=ch["nid"])
                                root_gt["children"].append({"kind": "message", "type": "co:m", "fields": {"nid": ch["nid"]}, "nid": ch["nid"], "strand": sub_strand})
                    root.run(inside)
            elif k == "act":
                gt = {"kind": "action", "type": "co:a", "nid": node["nid"], "start": {"nid": node["nid"]}, "status": "started", "end": None,
                      "children": [], "strand": strand}
                (self.forest if cur is None else gt_children).append(gt)
                raised = None
                try:
                    with start_action(action_type="co:a", nid=node["nid"]) as a:
                        if cur is None and getattr(self, "root", None) is None:
                            self.root = (a, gt)
                        self.probe(a, "inside action %s" % node["nid"])
                        await self.run_children(node["children"], gt["children"], a, strand)
                        self.probe(a, "inside action %s after children" % node["nid"])
                        if node["outcome"] == "raise":
                            raised = excs.make(node["exc"], "nid=%s" % node["nid"])
                            raise raised
                except Exception as e:
                    if e is not raised:
                        raise
                if raised is None:
                    gt["status"], gt["end"] = "succeeded", {}
                else:
                    gt["status"] = "failed"
                    gt["end"] = {"exception": excs.qualname(type(raised)), "reason": str(raised)}
            elif k == "cancel":
                await self.cancelled_task(node, gt_children, cur, strand)
            else:
                await self.spawn(node, gt_children, cur, strand)
            self.probe(cur, "after node %s" % node["nid"])

    async def cancelled_task(self, node, gt_children, cur, strand):
        """Start a task that enters an action and waits there; cancel it; the action ends failed with CancelledError in the task's
        own context, and the canceller's context is untouched."""
        loop = asyncio.get_running_loop()
        entered = loop.create_future()
        sub = "%s/%s.c" % (strand, node["nid"])
        gt = {"kind": "action", "type": "co:cancelled", "nid": node["act"], "start": {"nid": node["act"]}, "status": "started", "end": None,
              "children": [], "strand": sub}

        async def victim():
            self.probe(cur, "first probe in the task that will be cancelled (node %s)" % node["nid"])
            try:
                with start_action(action_type="co:cancelled", nid=node["act"]) as a:
                    (self.forest if cur is None else gt_children).append(gt)
                    for ch in node["before"]:
                        log_message(message_type="co:m", nid=ch["nid"])
                        gt["children"].append({"kind": "message", "type": "co:m", "fields": {"nid": ch["nid"]}, "nid": ch["nid"], "strand": sub})
                    entered.set_result(None)
                    await loop.create_future()  # waits for something that never comes: only the cancellation ends it
                    log_message(message_type="co:m", nid=node["never"])  # never reached
                    self.viol("the cancelled task went on after its await")
            finally:
                self.probe(cur, "in the cancelled task after its action's block was left (node %s)" % node["nid"])
        t = loop.create_task(victim())
        await entered
        if node["own_park"] is not None:
            await self.gate.point(node["own_park"])
        self.probe(cur, "in the canceller before cancel() (node %s)" % node["nid"])
        t.cancel()
        try:
            await t
            self.viol("awaiting the cancelled task did not raise CancelledError")
        except asyncio.CancelledError:
            pass
        gt["status"] = "failed"
        gt["end"] = {"exception": "asyncio.exceptions.CancelledError", "reason": ""}
        self.probe(cur, "in the canceller after the cancelled task ended (node %s)" % node["nid"])

    async def spawn(self, node, gt_children, cur, strand):
        how = node["how"]
        coros = []
        for j, children in enumerate(node["tasks"]):
            async def task_body(children=children, j=j):
                # an asyncio task inherits the action current where it was created
                self.probe(cur, "first probe in a new task (spawn %s)" % node["nid"])
                self.active_contexts += 1
                self.max_active = max(self.max_active, self.active_contexts)
                try:
                    await self.run_children(children, gt_children, cur, "%s/%s.%d" % (strand, node["nid"], j))
                finally:
                    self.active_contexts -= 1
                self.probe(cur, "last probe in task (spawn %s)" % node["nid"])
            coros.append(task_body())
        if how == "gather":
            await asyncio.gather(*coros)
        elif how == "taskgroup":
            async with asyncio.TaskGroup() as tg:
                for c in coros:
                    tg.create_task(c)
        else:
            mk = asyncio.ensure_future if how == "ensure_future" else asyncio.get_running_loop().create_task
            tasks = [mk(c) for c in coros]
            for t in tasks:
                await t


async def _drive(prog, gate, it):
    main = asyncio.ensure_future(it.run_children(prog, None, None, "main"))
    idle = 0
    while not main.done():
        for _ in range(6):
            await asyncio.sleep(0)
        if gate.parked:
            idle = 0
            i = gate.rng.randrange(len(gate.parked))
            nid, fut = gate.parked.pop(i)
            if fut.done():
                continue  # (its task was cancelled while parked here)
            gate.order.append(nid)
            fut.set_result(None)
        else:
            idle += 1
            if idle > 200 and not main.done():
                main.cancel()
                raise RuntimeError("coroutine program made no progress")
    await main


def run_async_program(prog, rng):
    """Returns (problems, interp, tape, release order)."""
    tape = Tape()
    rec = Recorder(tape, "rec")
    add_destinations(rec)
    gate = Gate(rng)
    it = AsyncInterp(gate, tape)
    problems = []
    try:
        asyncio.run(_drive(prog, gate, it))
    except BaseException as e:
        problems.append("running the coroutine program raised %r" % (e,))
    finally:
        remove_destination(rec)
    problems += it.violations
    return problems, it, tape, gate.order


def norm_sorted(node):
    """Sort children by nid (concurrent siblings may be emitted in any order); keep a per-strand order list for the order check."""
    if node["kind"] == "action":
        ch = [norm_sorted(c) for c in node["children"]]
        ch.sort(key=lambda c: str(c["nid"]).zfill(8))
        node = dict(node, children=ch)
    return node


def parsed_with_nids(n):
    """Annotate a normalised parsed tree with nids taken from the messages."""
    if n["kind"] == "action":
        n = dict(n, nid=(n["start"] or {}).get("nid"), children=[parsed_with_nids(c) for c in n["children"]])
    else:
        n = dict(n, nid=n["fields"].get("nid"))
    return n


def judge_async_run(tape, forest, problems):
    msgs = tape.msgs("rec")
    try:
        tasks = list(Parser.parse_stream(msgs))
    except BaseException as e:
        problems.append("parsing the tape raised %r" % (e,))
        return len(msgs)
    got = {}
    for t in tasks:
        if not t.is_complete():
            problems.append("a task is not complete")
        r = parsed_with_nids(oracles.norm_written(t.root()))
        got[r["nid"]] = r
    if len(got) != len(forest):
        problems.append("parsed %d tasks, executed %d" % (len(got), len(forest)))
    for e in forest:
        g = got.get(e["nid"])
        if g is None:
            problems.append("no parsed task for top-level node %s" % e["nid"])
            continue
        # sequential order inside each strand must be kept in the parsed (level-sorted) children
        def order_check(en, gn):
            if en["kind"] != "action" or gn["kind"] != "action":
                return
            pos = {c["nid"]: i for i, c in enumerate(gn["children"])}
            last = {}
            for c in en["children"]:
                s = c["strand"]
                if c["nid"] in pos:
                    if s in last and pos[c["nid"]] < last[s]:
                        problems.append("children of node %s logged sequentially by one task appear re-ordered in the parsed tree" % en["nid"])
                    last[s] = pos[c["nid"]]
            for c in en["children"]:
                for gc in gn["children"]:
                    if gc["nid"] == c["nid"]:
                        order_check(c, gc)
        order_check(e, g)
        out = []
        oracles.compare_node(norm_sorted(e), norm_sorted(g), "n%s" % e["nid"], out)
        problems.extend(out[:5])
    entries = [("msg", m) for m in msgs]
    problems += oracles.check_placement(entries)
    return len(msgs)


# --------------------------------------------------------------------------- C02 parts


def c02_specs(tier, seed):
    n = 2000 if tier == "quick" else 20000
    B = 20
    specs = [{"part": "async", "seed": seed, "lo": i, "hi": min(n, i + B)} for i in range(0, n, B)]
    m = 1000 if tier == "quick" else 10000
    specs += [{"part": "threads", "seed": seed, "lo": i, "hi": min(m, i + B)} for i in range(0, m, B)]
    return specs


def c02_run(spec, res):
    import sys
    from .runner import h
    c = res["counters"]
    for i in range(spec["lo"], spec["hi"]):
        rng = random.Random("%s:C02:%s:%d" % (spec["seed"], spec["part"], i))
        if spec["part"] == "async":
            prog = gen_async_program(rng)
            problems, it, tape, order = run_async_program(prog, rng)
            n = judge_async_run(tape, it.forest, problems)
            c["async_runs"] = c.get("async_runs", 0) + 1
            c["messages_checked"] = c.get("messages_checked", 0) + n
            if it.max_active >= 2:
                res["nontrivial"].append(h(["async", prog, order]))
            label = "async"
        else:
            prog, nthreads = gen_thread_program(rng, max_threads=4, size="large")
            old = sys.getswitchinterval()
            sys.setswitchinterval(1e-6)
            try:
                problems, it, tape, forest = run_thread_program(prog)
            finally:
                sys.setswitchinterval(old)
            n = judge_thread_run(tape, forest, problems)
            c["thread_runs"] = c.get("thread_runs", 0) + 1
            c["messages_checked"] = c.get("messages_checked", 0) + n
            if nthreads >= 2:
                res["nontrivial"].append(h(["threads", gen.prog_shape(prog)]))
            label = "threads"
        res["evals"] += 1
        # context probes are C05's business; C02 judges the tape only
        problems = [p for p in problems if "current_action()" not in p]
        if problems:
            res["violations"].append({"msg": problems[0], "mech": None, "detail": {"part": label, "case": i, "problems": problems[:6], "program": prog}})
