"""Crash injection: a pass-through file object that SIGKILLs its own process at a planned (write index, phase)."""

import os
import signal
import struct

PHASES = ["before_write", "torn_write", "after_write", "after_flush"]


class CrashFile(object):
    """Wraps a real file. Counts write() calls (the zero-length mode probe excluded)."""

    def __init__(self, real, plan=None):
        self.real = real
        self.plan = plan  # (write index, phase) or None
        self.writes = 0  # writes begun
        self.flushed = 0  # write+flush pairs completed
        self._pending = None

    def _die(self):
        os.kill(os.getpid(), signal.SIGKILL)
        while True:  # pragma: no cover
            signal.pause()

    def writable(self):
        return True

    def write(self, data):
        if len(data) == 0:
            return self.real.write(data)
        k = self.writes
        self.writes += 1
        if self.plan and self.plan[0] == k:
            ph = self.plan[1]
            if ph == "before_write":
                self._die()
            if ph == "torn_write":
                half = data[: max(1, len(data) // 2)]
                self.real.write(half)
                self.real.flush()
                self._die()
            if ph == "after_write":
                self.real.write(data)
                self._die()
            self._pending = "after_flush"
        return self.real.write(data)

    def flush(self):
        self.real.flush()
        self.flushed = self.writes
        if self._pending == "after_flush":
            self._die()


def send_ack(fd, n):
    os.write(fd, struct.pack("<I", n))


def read_acks(fd):
    """Read all 4-byte acknowledgements until EOF; return the last complete one (or 0)."""
    buf = b""
    while True:
        b = os.read(fd, 65536)
        if not b:
            break
        buf += b
    n = len(buf) // 4
    if n == 0:
        return 0, 0
    return struct.unpack("<I", buf[(n - 1) * 4: n * 4])[0], n
