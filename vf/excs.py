"""Module-level exception classes used by generated programs (names are referenced from specs)."""

import asyncio


class UserError(Exception):
    pass


class MidUserError(UserError):
    pass


class DeepUserError(MidUserError):
    pass


class BadStr(Exception):
    """str() and repr() raise."""

    def __str__(self):
        raise RuntimeError("str() of BadStr raised")

    __repr__ = __str__


class BadStrRaisesBase(Exception):
    """str() raises something that is not an Exception subclass."""

    def __str__(self):
        raise UserBase("str() raised a BaseException")

    __repr__ = __str__


class UnicodeErr(Exception):
    def __str__(self):
        return "café \U0001f600 \x00 line\nbreak"


class UserBase(BaseException):
    pass


class BadStrBase(BaseException):
    def __str__(self):
        raise ValueError("str() of BadStrBase raised")


class MixedError(DeepUserError, OSError):
    """Two registered-extractor candidates in the MRO."""


class FalsyError(Exception):
    """An exception instance that is falsy."""

    def __bool__(self):
        return False


class EmptyErrors(Exception):
    """An aggregate exception with no members: len() == 0, hence falsy."""

    def __len__(self):
        return 0


class DestFault(Exception):
    pass


class DestFaultBadStr(Exception):
    def __str__(self):
        raise RuntimeError("no text")


class SerFault(Exception):
    pass


class ChainedError(UserError):
    """Raised `from` another exception, inside an except block: carries __cause__ and __context__."""


class NoArgsError(Exception):
    """Instantiated without arguments: str() is the empty string."""


class NonStrArgs(Exception):
    """Several non-text arguments."""


class CtorArgs(Exception):
    """Cannot be re-created from its args."""

    def __init__(self, code, detail):
        Exception.__init__(self, "%s/%s" % (code, detail))
        self.code = code
        self.detail = detail


class SlotsError(Exception):
    """Instances accept no new attributes."""
    __slots__ = ()


class LongTextError(Exception):
    def __str__(self):
        return "long text " + "é" * 100000


class _ComparingMeta(type):
    """Classes that compare by value (ORM-style declarative classes, interface/registry metaclasses define __eq__ like this): defining
    __eq__ without __hash__ makes the class objects unhashable."""

    def __eq__(cls, other):
        return cls is other


class UnhashableClassError(Exception, metaclass=_ComparingMeta):
    """An exception class that cannot be used as a dictionary key."""


class Outer(object):
    class NestedError(LookupError):
        """__qualname__ differs from __name__."""


# a class synthesised at run time (RPC / FFI bridges do this) whose __module__ is not text
RemoteError = type("RemoteError", (Exception,), {"__module__": None})


def make_local_error_class():
    """An exception class defined inside a function: __qualname__ is '...<locals>.LocalError', __name__ is 'LocalError'."""
    class LocalError(Exception):
        pass
    return LocalError


POOL = {
    "ValueError": ValueError,
    "KeyError": KeyError,
    "RuntimeError": RuntimeError,
    "ZeroDivisionError": ZeroDivisionError,
    "StopIteration": StopIteration,
    "OSError": OSError,
    "FileNotFoundError": FileNotFoundError,
    "UserError": UserError,
    "MidUserError": MidUserError,
    "DeepUserError": DeepUserError,
    "MixedError": MixedError,
    "BadStr": BadStr,
    "BadStrRaisesBase": BadStrRaisesBase,
    "FalsyError": FalsyError,
    "EmptyErrors": EmptyErrors,
    "UnicodeErr": UnicodeErr,
    "KeyboardInterrupt": KeyboardInterrupt,
    "GeneratorExit": GeneratorExit,
    "SystemExit": SystemExit,
    "CancelledError": asyncio.CancelledError,
    "UserBase": UserBase,
    "BadStrBase": BadStrBase,
    "ExceptionGroup": ExceptionGroup,
    "ChainedError": ChainedError,
    "NoArgsError": NoArgsError,
    "NonStrArgs": NonStrArgs,
    "CtorArgs": CtorArgs,
    "SlotsError": SlotsError,
    "LongTextError": LongTextError,
    "NestedError": Outer.NestedError,
    "UnicodeDecodeError": UnicodeDecodeError,
    "RemoteError": RemoteError,
    "OddSyntaxError": SyntaxError,
    "UnhashableClassError": UnhashableClassError,
}


def make(name, tag):
    """Instantiate pool exception `name` carrying `tag` in its arguments."""
    cls = POOL[name]
    if issubclass(cls, OSError):
        if cls is FileNotFoundError:
            return cls(2, "missing %s" % tag)
        return cls(13, "os failure %s" % tag)
    if cls is ExceptionGroup:
        return ExceptionGroup("boom %s" % tag, [ValueError("member a"), KeyError("member b")])
    if cls is ChainedError:
        try:
            try:
                raise KeyError("root cause %s" % tag)
            except KeyError as k:
                raise ChainedError("boom %s" % tag) from k
        except ChainedError as e:
            return e
    if name == "OddSyntaxError":
        # a SyntaxError as raised by application-level parsers: its details tuple holds a bytes line, a non-integer offset or a
        # non-string text, which the traceback module cannot render
        k = sum(map(ord, str(tag))) % 3
        details = [("<config>", 1, 7, b"f(1, 2\n"), ("<config>", 1, "7", "f(1, 2\n"), ("<config>", 1, 1, 12345)][k]
        return SyntaxError("boom %s" % tag, details)
    if cls is NoArgsError:
        return cls()
    if cls is NonStrArgs:
        return cls(7, {"tag": tag}, None)
    if cls is CtorArgs:
        return cls(42, tag)
    if cls is UnicodeDecodeError:
        return cls("utf-8", b"\xff" + str(tag).encode("ascii", "replace"), 0, 1, "invalid start byte")
    return cls("boom %s" % tag)


def qualname(cls):
    return "%s.%s" % (cls.__module__, cls.__name__)


def safe_text(exc):
    """(ok, text): str(exc) if it works."""
    try:
        return True, str(exc)
    except BaseException:
        return False, None
