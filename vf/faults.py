"""Fault masks and hostile values."""

from . import excs

DEST_EXCS = [TimeoutError, excs.DestFault, excs.DestFaultBadStr, excs.BadStrRaisesBase, ValueError, KeyError, OSError, UnicodeError, excs.DeepUserError, excs.RemoteError, excs.Outer.NestedError, excs.make_local_error_class()]


def gen_mask(rng, horizon):
    """Return (description, predicate over call index)."""
    r = rng.random()
    if r < 0.15:
        return "all", (lambda i: True)
    if r < 0.3:
        k = rng.randint(2, 4)
        off = rng.randrange(k)
        return "every%d+%d" % (k, off), (lambda i, k=k, off=off: i % k == off)
    if r < 0.45:
        n = rng.randint(1, max(1, horizon // 2))
        return "first%d" % n, (lambda i, n=n: i < n)
    if r < 0.55:
        n = rng.randint(0, horizon)
        return "from%d" % n, (lambda i, n=n: i >= n)
    p = rng.choice([0.1, 0.3, 0.5, 0.8])
    s = frozenset(i for i in range(horizon * 3 + 10) if rng.random() < p)
    return "set:" + ",".join(map(str, sorted(s)[:20])), (lambda i, s=s: i in s)


def exc_factory(rng):
    if rng.random() < 0.08:
        # a fan-out destination that collects the failures of its sinks and raises them as one exception group (one leaf, several,
        # nested): still ONE failure of that destination, with the group's own class and text
        shape = rng.choice(["one", "two", "nested"])

        def make_group(i, shape=shape):
            leaves = [ConnectionError("sink a, call %d" % i), TimeoutError("sink b, call %d" % i), ValueError("sink c")]
            if shape == "one":
                return ExceptionGroup("fan-out failed, call %d" % i, leaves[:1])
            if shape == "two":
                return ExceptionGroup("fan-out failed, call %d" % i, leaves[:2])
            return ExceptionGroup("fan-out failed, call %d" % i, [leaves[0], ExceptionGroup("inner", leaves[1:])])
        return "ExceptionGroup:" + shape, make_group
    cls = rng.choice(DEST_EXCS)
    if rng.random() < 0.2:
        # a destination that keeps one exception object and raises it again on every failure (`raise self._error`)
        if cls is OSError:
            stored = OSError(5, "stored destination failure")
        else:
            stored = cls("stored destination failure")
        return cls.__name__ + ":same-object", (lambda i, stored=stored: stored)

    if cls in (excs.DestFault, ValueError, KeyError, OSError, excs.DeepUserError, TimeoutError) and rng.random() < 0.2:
        # raised without arguments (`raise TimeoutError()`) or with "": the exception's text is the empty string
        noargs = rng.random() < 0.5
        return cls.__name__ + ":empty-text", (lambda i, cls=cls, noargs=noargs: cls() if noargs else cls(""))

    def make(i, cls=cls):
        if cls is OSError:
            return OSError(5, "dest failure call %d" % i)
        if cls is UnicodeError:
            return UnicodeError("dest failure call %d" % i)
        return cls("dest failure call %d" % i)

    return cls.__name__, make


# --------------------------------------------------------------------------- hostile values (C07)


class BadStrObj(object):
    def __str__(self):
        raise RuntimeError("no str")

    def __repr__(self):
        raise RuntimeError("no repr")


class BadReprOnly(object):
    def __repr__(self):
        raise ValueError("no repr")


class Plain(object):
    pass


class BadEq(object):
    def __eq__(self, other):
        raise RuntimeError("no eq")

    __hash__ = object.__hash__


class BadHashKey(object):
    def __hash__(self):
        return 1

    def __repr__(self):
        raise RuntimeError("no repr key")


class StrSub(str):
    pass


class DictSub(dict):
    def __repr__(self):
        raise RuntimeError("no repr dict")


import collections as _collections
import dataclasses as _dataclasses
import enum as _enum


class Colour(_enum.Enum):
    RED = 1
    GREEN = "g"


class Level(_enum.IntEnum):
    LOW = 1
    HIGH = 2


Point = _collections.namedtuple("Point", "x y")


@_dataclasses.dataclass
class Record(object):
    name: str
    payload: object = None


class IntSub(int):
    def __repr__(self):
        raise RuntimeError("no repr int")

    __str__ = __repr__


class BadIter(object):
    def __iter__(self):
        raise RuntimeError("no iter")

    def __len__(self):
        raise RuntimeError("no len")

    def __bool__(self):
        raise RuntimeError("no bool")


class BadGetattr(object):
    def __getattr__(self, name):
        raise RuntimeError("no attribute %s" % name)


class NumpyLike(object):
    """Looks like what eliot.json's default handles for numpy (has dtype / tolist / item) without being it."""
    dtype = "int64"
    shape = (2,)
    size = 2

    def tolist(self):
        raise RuntimeError("no tolist")

    def item(self):
        raise RuntimeError("no item")


def _more_hostile(rng, r):
    import datetime
    import decimal
    import fractions
    if r == 22:
        return Colour.RED
    if r == 23:
        return Level.HIGH
    if r == 24:
        return Point(1, BadStrObj())
    if r == 25:
        return Record("r", payload=Plain())
    if r == 26:
        return StrSub("str subclass \ud800")
    if r == 27:
        return IntSub(7)
    if r == 28:
        return BadIter()
    if r == 29:
        return BadGetattr()
    if r == 30:
        return NumpyLike()
    if r == 31:
        return (x for x in [1, 2, 3])
    if r == 32:
        return bytearray(b"\xff\x00")
    if r == 33:
        return memoryview(b"abc")
    if r == 34:
        return decimal.Decimal("1.5")
    if r == 35:
        return fractions.Fraction(1, 3)
    if r == 36:
        return datetime.datetime(2020, 1, 1, tzinfo=datetime.timezone(datetime.timedelta(hours=5, minutes=30)))
    if r == 37:
        return range(10**12)
    if r == 38:
        return frozenset([1, Plain])
    if r == 39:
        return {"k": 1}.keys()
    if r == 40:
        return ValueError
    if r == 41:
        e = ValueError("an exception instance as field value")
        e.__cause__ = KeyError("cause")
        return e
    if r == 42:
        return ExceptionGroup("group", [ValueError("a"), KeyError("b")])
    if r == 43:
        return {Colour.RED: 1, Level.LOW: 2}
    if r == 44:
        return {"set": {1, "x", None}}
    if r == 45:
        return datetime.datetime(1, 1, 1)
    if r == 46:
        return datetime.datetime(9999, 12, 31, 23, 59, 59, 999999)
    if r == 47:
        return float("-inf")
    if r == 48:
        return complex(float("nan"), 1)
    return type("Anon", (), {"__slots__": ()})()


def hostile_value(rng):
    r = rng.randrange(50)
    if r >= 22:
        return _more_hostile(rng, r)
    if r == 0:
        return BadStrObj()
    if r == 1:
        return BadReprOnly()
    if r == 2:
        return Plain()
    if r == 3:
        return {1: "int key"}
    if r == 4:
        return {(1, 2): "tuple key", "ok": 1}
    if r == 5:
        return 2**64
    if r == 6:
        return -(2**63) - 1
    if r == 7:
        return 10**400
    if r == 8:
        return "lone \ud800 surrogate"
    if r == 9:
        return b"bytes \xff\xfe"
    if r == 10:
        return object()
    if r == 11:
        v = []
        for _ in range(rng.choice([300, 1200])):
            v = [v]
        return v
    if r == 12:
        v = []
        v.append(v)
        return v
    if r == 13:
        d = {}
        d["self"] = d
        return d
    if r == 14:
        return float("nan")
    if r == 15:
        return {"nested": [BadStrObj(), {"k": Plain()}]}
    if r == 16:
        return BadEq()
    if r == 17:
        return {BadHashKey(): 1}
    if r == 18:
        return DictSub(a=BadStrObj())
    if r == 19:
        return (1, 2, {3})
    if r == 20:
        return {"\ud800": 1}
    return lambda: None
