"""Fault masks and hostile values."""

from . import excs

DEST_EXCS = [excs.DestFault, excs.DestFaultBadStr, excs.BadStrRaisesBase, ValueError, KeyError, OSError, UnicodeError, excs.DeepUserError]


def gen_mask(rng, horizon):
    """Return (description, predicate over call index)."""
    r = rng.random()
    if r < 0.15:
        return "all", (lambda i: True)
    if r < 0.3:
        k = rng.randint(2, 4)
        off = rng.randrange(k)
        return "every%d+%d" % (k, off), (lambda i, k=k, off=off: i % k == off)
    if r < 0.45:
        n = rng.randint(1, max(1, horizon // 2))
        return "first%d" % n, (lambda i, n=n: i < n)
    if r < 0.55:
        n = rng.randint(0, horizon)
        return "from%d" % n, (lambda i, n=n: i >= n)
    p = rng.choice([0.1, 0.3, 0.5, 0.8])
    s = frozenset(i for i in range(horizon * 3 + 10) if rng.random() < p)
    return "set:" + ",".join(map(str, sorted(s)[:20])), (lambda i, s=s: i in s)


def exc_factory(rng):
    cls = rng.choice(DEST_EXCS)

    def make(i, cls=cls):
        if cls is OSError:
            return OSError(5, "dest failure call %d" % i)
        if cls is UnicodeError:
            return UnicodeError("dest failure call %d" % i)
        return cls("dest failure call %d" % i)

    return cls.__name__, make


# --------------------------------------------------------------------------- hostile values (C07)


class BadStrObj(object):
    def __str__(self):
        raise RuntimeError("no str")

    def __repr__(self):
        raise RuntimeError("no repr")


class BadReprOnly(object):
    def __repr__(self):
        raise ValueError("no repr")


class Plain(object):
    pass


class BadEq(object):
    def __eq__(self, other):
        raise RuntimeError("no eq")

    __hash__ = object.__hash__


class BadHashKey(object):
    def __hash__(self):
        return 1

    def __repr__(self):
        raise RuntimeError("no repr key")


class StrSub(str):
    pass


class DictSub(dict):
    def __repr__(self):
        raise RuntimeError("no repr dict")


def hostile_value(rng):
    r = rng.randrange(22)
    if r == 0:
        return BadStrObj()
    if r == 1:
        return BadReprOnly()
    if r == 2:
        return Plain()
    if r == 3:
        return {1: "int key"}
    if r == 4:
        return {(1, 2): "tuple key", "ok": 1}
    if r == 5:
        return 2**64
    if r == 6:
        return -(2**63) - 1
    if r == 7:
        return 10**400
    if r == 8:
        return "lone \ud800 surrogate"
    if r == 9:
        return b"bytes \xff\xfe"
    if r == 10:
        return object()
    if r == 11:
        v = []
        for _ in range(rng.choice([300, 1200])):
            v = [v]
        return v
    if r == 12:
        v = []
        v.append(v)
        return v
    if r == 13:
        d = {}
        d["self"] = d
        return d
    if r == 14:
        return float("nan")
    if r == 15:
        return {"nested": [BadStrObj(), {"k": Plain()}]}
    if r == 16:
        return BadEq()
    if r == 17:
        return {BadHashKey(): 1}
    if r == 18:
        return DictSub(a=BadStrObj())
    if r == 19:
        return (1, 2, {3})
    if r == 20:
        return {"\ud800": 1}
    return lambda: None
