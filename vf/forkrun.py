"""Run a callable in a forked child and get its JSON-able result back (pristine eliot global state per call)."""

import json
import os
import select
import signal
import time
import traceback

from .runner import jsonable


def call_in_fork(fn, timeout=120.0):
    """Returns ("ok", result) | ("error", traceback text) | ("timeout", None) | ("died", wait status)."""
    r, w = os.pipe()
    pid = os.fork()
    if pid == 0:
        code = 0
        try:
            os.close(r)
            try:
                out = ("ok", fn())
            except BaseException:
                out = ("error", traceback.format_exc()[-3000:])
            data = json.dumps(jsonable(out)).encode("utf-8")
            off = 0
            while off < len(data):
                off += os.write(w, data[off: off + 65536])
        except BaseException:
            code = 3
        finally:
            os._exit(code)
    os.close(w)
    chunks = []
    deadline = time.monotonic() + timeout
    timed_out = False
    while True:
        left = deadline - time.monotonic()
        if left <= 0:
            timed_out = True
            break
        ready, _, _ = select.select([r], [], [], min(left, 1.0))
        if ready:
            b = os.read(r, 1 << 20)
            if not b:
                break
            chunks.append(b)
    os.close(r)
    if timed_out:
        try:
            os.kill(pid, signal.SIGKILL)
        except OSError:
            pass
    _, status = os.waitpid(pid, 0)
    if timed_out:
        return ("timeout", None)
    raw = b"".join(chunks)
    if not raw:
        return ("died", status)
    kind, val = json.loads(raw.decode("utf-8"))
    return (kind, val)
