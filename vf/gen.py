"""
Workload generators: JSON values, logging programs.

Everything is driven by a random.Random handed in by the caller, so a case is a function of
(VERIF_SEED, property id, case index).
"""

import math

# --------------------------------------------------------------------------- values

BOUNDARY_INTS = [
    0, 1, -1, 2, 7, 255, 256, -128, 2**31 - 1, 2**31, -(2**31), -(2**31) - 1,
    2**32, 2**53 - 1, 2**53, 2**53 + 1, -(2**53) - 1, 2**63 - 1, -(2**63), 2**63, 2**64 - 1,
    10**15, 10**18, 999999999999999999,
]
BOUNDARY_FLOATS = [
    0.0, -0.0, 1.0, -1.0, 0.1, 0.5, 1e-7, 1.5e300, 1e308, 1.7976931348623157e308, 5e-324,
    2.2250738585072014e-308, 2.225073858507201e-308, 1e21, 1e22, 1e23, 123456789.123456789,
    0.30000000000000004, 9007199254740993.0, -1e-320, 3.141592653589793, 1 / 3,
]
TEXT_ATOMS = [
    "", "a", "abc", "hello world", "x" * 50, "\n", "\t", "\r\n", "\x00", "\x01", "\x1f", "\x7f",
    " ", " ", '"', "\\", "\\n", '\\"', "/", "</script>", "é", "ß", "中文",
    "한", "\U0001f600", "\U00010000", "\U0010ffff", "é", "﻿", "�", "￿",
    "{}", "[]", "null", "true", "=", " ", "  two  spaces ", "line1\nline2", "tab\there", "%s", "{0}",
    "\u0000end", "\x1b[0m", "a\x08b", "​", "‮",
]
IDENT_KEYS = ["f0", "f1", "f2", "alpha", "beta", "count", "path", "x", "y", "value", "data", "k9"]
ODD_KEYS = ["kéy", "a b", "k-1", "k.dot", "中", "\U0001f600k", "with\"quote", "k/slash", "", "CamelCase", "k\\bs"]


def gen_text(rng, long_ok=True):
    r = rng.random()
    if r < 0.35:
        return rng.choice(TEXT_ATOMS)
    if r < 0.7:
        return "".join(rng.choice(TEXT_ATOMS) for _ in range(rng.randint(2, 5)))
    if r < 0.9:
        n = rng.randint(1, 12)
        return "".join(chr(rng.choice([rng.randint(0x20, 0x7E), rng.randint(0, 0x1F), rng.randint(0xA0, 0x2FF),
                                       rng.randint(0x3000, 0x9FFF), rng.randint(0x10000, 0x10FFFF)]))
                       for _ in range(n)).encode("utf-8", "ignore").decode("utf-8", "ignore")
    if long_ok:
        return rng.choice(["ab", "é", "x\n", "\U0001f600"]) * rng.randint(40, 600)
    return "t%d" % rng.randint(0, 999)


def gen_int(rng):
    r = rng.random()
    if r < 0.5:
        return rng.choice(BOUNDARY_INTS)
    if r < 0.8:
        return rng.randint(-1000, 1000)
    return rng.randint(-(2**63), 2**64 - 1)


def gen_float(rng):
    r = rng.random()
    if r < 0.5:
        return rng.choice(BOUNDARY_FLOATS) * rng.choice([1, -1])
    if r < 0.8:
        return rng.uniform(-1000, 1000)
    return math.ldexp(rng.random(), rng.randint(-1070, 1020)) * rng.choice([1, -1])


def gen_scalar(rng):
    r = rng.random()
    if r < 0.08:
        return None
    if r < 0.18:
        return rng.random() < 0.5
    if r < 0.45:
        return gen_int(rng)
    if r < 0.65:
        return gen_float(rng)
    return gen_text(rng)


def gen_key(rng):
    r = rng.random()
    if r < 0.5:
        return rng.choice(IDENT_KEYS)
    if r < 0.75:
        return rng.choice(ODD_KEYS)
    return gen_text(rng, long_ok=False)


def gen_value(rng, depth=3, width=4):
    """A JSON-native value: scalars, lists, string-keyed dicts."""
    if depth <= 0 or rng.random() < 0.45:
        return gen_scalar(rng)
    if rng.random() < 0.5:
        return [gen_value(rng, depth - 1, width) for _ in range(rng.randint(0, width))]
    return {gen_key(rng): gen_value(rng, depth - 1, width) for _ in range(rng.randint(0, width))}


def gen_deep(rng, depth):
    """A chain nested exactly `depth` deep, mixing lists and dicts."""
    v = gen_scalar(rng)
    for _ in range(depth):
        v = [v] if rng.random() < 0.5 else {gen_key(rng): v}
    return v


def value_depth(v):
    if isinstance(v, (list, tuple)):
        return 1 + max([value_depth(x) for x in v] or [0])
    if isinstance(v, dict):
        return 1 + max([value_depth(x) for x in v.values()] or [0])
    return 0


def json_equal(a, b):
    """Strict equality of decoded JSON values: types matter, -0.0 != 0.0, bool != int."""
    if type(a) is not type(b):
        return False
    if isinstance(a, float):
        if a != a:
            return b != b
        return a == b and math.copysign(1.0, a) == math.copysign(1.0, b)
    if isinstance(a, list):
        return len(a) == len(b) and all(json_equal(x, y) for x, y in zip(a, b))
    if isinstance(a, dict):
        return a.keys() == b.keys() and all(json_equal(a[k], b[k]) for k in a)
    return a == b


def needs_escape(s):
    return any(ord(c) < 0x20 or c in '"\\' or ord(c) > 0x7E for c in s)


def value_interesting(v):
    """Non-triviality rule shared by C01/C10: escape-requiring text, boundary number, nesting >= 3."""
    def walk(x):
        if isinstance(x, str):
            return needs_escape(x)
        if isinstance(x, bool) or x is None:
            return False
        if isinstance(x, int):
            return abs(x) >= 2**31
        if isinstance(x, float):
            return x == 0.0 or abs(x) > 1e15 or abs(x) < 1e-6
        if isinstance(x, list):
            return any(walk(y) for y in x)
        if isinstance(x, dict):
            return any(walk(y) for y in x.values()) or any(needs_escape(k) for k in x)
        return True
    return walk(v) or value_depth(v) >= 3


# --------------------------------------------------------------------------- logging programs

RESERVED = {"task_uuid", "task_level", "timestamp", "action_type", "action_status", "message_type",
            "exception", "reason", "nid", "result", "self", "logger", "_serializers", "traceback",
            "__eliot_logger__", "__eliot_serializer__", "message"}

MSG_STYLES = ["log_message", "action.log", "Message.log", "Message.new.write", "Message.bind.write", "MessageType.log", "MessageType.call.write"]
ACT_STYLES = ["with", "ctx_finish", "run_finish", "log_call", "ActionType", "as_task", "start_task"]
GEN_STYLES = ["gen_with", "gen_context"]  # action entered inside a plain generator that is then closed / thrown into
TYPE_NAMES = ["app:a", "app:b", "app:c", "svc:request", "svc:db", "x", ""]  # "" is start_action's default type
SERIALIZERS = ["ident", "str", "wrap", "neg"]

# exception pool: names resolved in vf.excs
EXC_EXCEPTION = ["ValueError", "KeyError", "RuntimeError", "UserError", "DeepUserError", "OSError", "FileNotFoundError",
                 "ZeroDivisionError", "BadStr", "UnicodeErr", "StopIteration", "FalsyError", "EmptyErrors", "BadStrRaisesBase",
                 "ExceptionGroup", "ChainedError", "NoArgsError", "NonStrArgs", "CtorArgs", "SlotsError", "LongTextError", "NestedError",
                 "UnicodeDecodeError", "RemoteError", "OddSyntaxError", "UnhashableClassError"]
EXC_BASE = ["KeyboardInterrupt", "GeneratorExit", "SystemExit", "CancelledError", "UserBase", "BadStrBase"]


class ProgGen(object):
    """Generates a logging program as a tree of plain dicts."""

    def __init__(self, rng, max_depth=4, max_nodes=40, value_depth=2, msg_styles=None, act_styles=None,
                 exc_pool=None, allow_remote=True, allow_tb=True, allow_typed=True, type_names=None,
                 allow_cross=True, fail_p=0.3, remote_vias=("same", "thread"), allow_reenter=False, hostile=None, defer_p=0.0, early_finish_p=0.0, extra_styles=(), reseed_p=0.0, reserved_field_p=0.0, status_field_p=0.0, underscore_field_p=0.0):
        self.underscore_field_p = underscore_field_p  # share of untyped field sets with a key that starts with an underscore (_id, _rev: document-store style names)
        self.reseed_p = reseed_p  # share of body slots that re-seed the global random module with a fixed seed (programs do that)
        self.reserved_field_p = reserved_field_p  # share of untyped field sets that also carry a key named like eliot's own metadata
        self.allow_reenter = allow_reenter
        self.status_field_p = status_field_p  # share of untyped messages carrying a user field named action_status
        self.early_finish_p = early_finish_p  # share of with-style actions that call finish() themselves at the end of the block
        self.extra_styles = tuple(extra_styles)  # e.g. "pre_created", "ctx_finish_inside"
        self.defer_p = defer_p  # share of continue_task hand-offs that are continued only after the program (parent finished)
        self.hostile = hostile  # callable(rng) -> hostile value, used for ~1/3 of the field values
        self.rng = rng
        self.max_depth = max_depth
        self.budget = max_nodes
        self.value_depth = value_depth
        self.msg_styles = msg_styles or MSG_STYLES
        self.act_styles = act_styles or ACT_STYLES
        self.exc_pool = exc_pool or (EXC_EXCEPTION + EXC_BASE)
        self.allow_remote = allow_remote
        self.allow_tb = allow_tb
        self.allow_typed = allow_typed
        self.type_names = type_names or TYPE_NAMES
        self.allow_cross = allow_cross
        self.fail_p = fail_p
        self.remote_vias = remote_vias
        self.nid = 0

    def _nid(self):
        self.nid += 1
        return self.nid

    def fields(self, ident_only=False, typed=False):
        rng = self.rng
        out = {}
        for _ in range(rng.choice([0, 1, 1, 2, 3])):
            k = rng.choice(IDENT_KEYS) if (ident_only or typed or rng.random() < 0.6) else gen_key(rng)
            if k in RESERVED or k.startswith("_"):
                continue
            if self.hostile is not None and rng.random() < 0.35:
                out[k] = self.hostile(rng)
            else:
                out[k] = gen_value(rng, self.value_depth)
        if not ident_only and not typed and self.underscore_field_p and rng.random() < self.underscore_field_p:
            out[rng.choice(["_id", "_rev", "_private", "_"])] = rng.choice(["5f1d7c", 12, None, [1, 2]])
        if not ident_only and not typed and rng.random() < self.reserved_field_p:
            # a program may pass keyword fields named like eliot's own metadata; eliot's values must win
            out[rng.choice(["timestamp", "task_level", "task_uuid"])] = rng.choice(["x", 3, [7, 7], "11111111-2222-3333-4444-555555555555", None])
        return out

    def typed_decl(self, fields):
        """For typed styles: choose a serializer name per field."""
        return {k: self.rng.choice(SERIALIZERS) for k in fields}

    def msg(self):
        rng = self.rng
        style = rng.choice(self.msg_styles)
        typed = style.startswith("MessageType")
        if typed and not self.allow_typed:
            style, typed = "log_message", False
        f = self.fields(typed=typed)
        t = rng.choice(self.type_names)
        node = {"k": "msg", "nid": self._nid(), "style": style, "type": (t + ":m") if t else "", "fields": f}
        if not typed and style != "stdlib" and rng.random() < self.status_field_p:
            # a plain message about some job's state: "action_status" is just a field name here (the message has no action_type)
            f["action_status"] = rng.choice(["succeeded", "started", "failed", "paused", 3])
        if typed:
            defs = self.__dict__.setdefault("_mdefs", [])
            if defs and rng.random() < 0.5:
                # the same declared type used again with other values (types are long-lived objects in real programs)
                tt, decl = rng.choice(defs)
                node["type"] = tt
                node["fields"] = {k: gen_value(rng, self.value_depth) for k in decl}
                node["decl"] = dict(decl)
            else:
                node["decl"] = self.typed_decl(f)
                defs.append((node["type"], dict(node["decl"])))
        return node

    def tb(self):
        return {"k": "tb", "nid": self._nid(), "exc": self.rng.choice([e for e in self.exc_pool if e in EXC_EXCEPTION] or ["ValueError"])}

    def act(self, depth, force_style=None):
        rng = self.rng
        style = force_style or rng.choice(self.act_styles)
        if force_style is None and self.extra_styles and rng.random() < 0.2:
            style = rng.choice(self.extra_styles)
        typed = style in ("ActionType", "as_task")
        if typed and not self.allow_typed:
            style, typed = "with", False
        ident = style == "log_call"
        node = {"k": "act", "nid": self._nid(), "style": style, "type": rng.choice(self.type_names),
                "start": self.fields(ident_only=ident, typed=typed),
                "success": {} if ident else self.fields(typed=typed),
                "outcome": "ok", "children": []}
        if ident:
            node["result"] = self.hostile(rng) if (self.hostile is not None and rng.random() < 0.4) else gen_value(rng, self.value_depth)
        if typed:
            defs = self.__dict__.setdefault("_adefs", [])
            if defs and rng.random() < 0.5:
                tt, ds, dsu = rng.choice(defs)
                node["type"] = tt
                node["start"] = {k: gen_value(rng, self.value_depth) for k in ds}
                node["success"] = {k: gen_value(rng, self.value_depth) for k in dsu}
                node["decl_start"], node["decl_success"] = dict(ds), dict(dsu)
            else:
                node["decl_start"] = self.typed_decl(node["start"])
                node["decl_success"] = self.typed_decl(node["success"])
                defs.append((node["type"], dict(node["decl_start"]), dict(node["decl_success"])))
        if style in ("with", "ctx_finish", "ActionType") and rng.random() < 0.2:
            node["extra_finish"] = rng.randint(1, 3)
        if self.allow_reenter and rng.random() < 0.35:
            node["reenter"] = [rng.choice(["context", "run"]) for _ in range(rng.randint(1, 3))]
        if self.allow_reenter and rng.random() < 0.2:
            node["enter_after_finish"] = [rng.choice(["context", "run"]) for _ in range(rng.randint(1, 2))]
        if style in ("with", "start_task") and rng.random() < self.early_finish_p:
            node["early_finish"] = rng.choice(["ok", "exc"])
        node["children"] = self.body(depth + 1)
        if rng.random() < self.fail_p:
            node["outcome"] = "raise"
            node["exc"] = rng.choice(self.exc_pool)
            # number of additional enclosing actions the exception crosses before being caught
            node["cross"] = rng.choice([0, 0, 0, 1, 1, 2, 5]) if self.allow_cross else 0
        return node

    def remote(self, depth):
        rng = self.rng
        node = {"k": "remote", "nid": self._nid(), "via": rng.choice(self.remote_vias),
                "idform": rng.choice(["bytes", "str"]),
                "api": rng.choice(["continue_task", "continue_task", "preserve_context"]),
                "type": rng.choice(self.type_names + ["eliot:remote_task"]),
                "start": self.fields(), "outcome": "ok", "children": []}
        if node["api"] == "continue_task" and rng.random() < self.defer_p:
            node["defer"] = True
        if node["api"] == "preserve_context":
            node["type"] = "eliot:remote_task"
            node["start"] = {}
            if node["via"] == "fork":
                node["via"] = "thread"
        node["children"] = self.body(depth + 1)
        if rng.random() < self.fail_p / 2:
            node["outcome"] = "raise"
            node["exc"] = rng.choice([e for e in self.exc_pool if e in EXC_EXCEPTION] or ["ValueError"])
            node["cross"] = 0
        return node

    def body(self, depth):
        rng = self.rng
        out = []
        n = rng.choice([0, 1, 2, 2, 3, 4]) if depth > 0 else rng.choice([1, 2, 3, 4])
        for _ in range(n):
            if self.budget <= 0:
                break
            self.budget -= 1
            r = rng.random()
            if self.reseed_p and rng.random() < self.reseed_p:
                out.append({"k": "reseed", "nid": self._nid(), "seed": rng.choice([0, 1, 4242])})
            if depth >= self.max_depth or r < 0.35:
                out.append(self.msg())
            elif r < 0.42 and self.allow_tb:
                out.append(self.tb())
            elif r < 0.52 and self.allow_remote and depth > 0:
                out.append(self.remote(depth))
            else:
                out.append(self.act(depth))
        return out

    def program(self):
        return self.body(0)


def prog_stats(prog):
    """depth, node count, styles used, failed count, for non-triviality rules and shape hashes."""
    st = {"depth": 0, "nodes": 0, "styles": set(), "failed": 0, "remote": 0, "tb": 0, "excs": set(), "basefail": 0}

    def walk(nodes, d):
        for n in nodes:
            st["nodes"] += 1
            st["depth"] = max(st["depth"], d)
            if n["k"] == "msg":
                st["styles"].add("m:" + n["style"])
            elif n["k"] == "tb":
                st["tb"] += 1
            elif n["k"] == "reseed":
                pass
            elif n["k"] == "spawn":
                st["styles"].add("spawn:" + n["mode"])
                for th in n["threads"]:
                    walk(th, d + 1)
            else:
                if n["k"] == "remote":
                    st["remote"] += 1
                    st["styles"].add("r:" + n["api"] + ":" + n["via"])
                else:
                    st["styles"].add("a:" + n["style"])
                if n.get("outcome") == "raise":
                    st["failed"] += 1
                    st["excs"].add(n["exc"])
                    if n["exc"] in EXC_BASE:
                        st["basefail"] += 1
                walk(n["children"], d + 1)
    walk(prog, 1)
    return st


def prog_shape(prog):
    """Structure of a program without field values (for distinctness hashing)."""
    def walk(nodes):
        out = []
        for n in nodes:
            if n["k"] == "msg":
                out.append(("m", n["style"], len(n["fields"])))
            elif n["k"] == "tb":
                out.append(("tb", n["exc"]))
            elif n["k"] == "reseed":
                out.append(("reseed",))
            elif n["k"] == "spawn":
                out.append(("spawn", n["mode"], [walk(th) for th in n["threads"]]))
            else:
                out.append((n["k"], n.get("style") or n.get("api"), n.get("outcome"), n.get("exc"), n.get("cross"),
                            walk(n["children"])))
        return out
    return walk(prog)
