"""
Executes a generated logging program (vf.gen.ProgGen) against the real eliot public API and
builds the ground-truth forest from what it *did* (never from what eliot emitted).

Monitors built in (recorded in self.violations):
  * every eliot API call must return normally (C07),
  * the exception leaving a with-block / passed on is the very object the body raised (C03/C07),
  * current_action() probes against a shadow stack before, inside and after every construct (C04).
"""

import os
import threading
import warnings

import eliot
from eliot import (
    Action,
    ActionType,
    Field,
    Message,
    MessageType,
    current_action,
    log_call,
    log_message,
    preserve_context,
    start_action,
    start_task,
    write_traceback,
)

from . import excs

ANYTEXT = {"__anytext__": True}

SER = {
    "ident": lambda v: v,
    "str": lambda v: str(v),
    "wrap": lambda v: [v],
    "neg": lambda v: {"wrapped": v, "n": 1},
}

_RealThread = threading.Thread


_STDLIB_SEQ = [0]


class _Sink(object):
    """A minimal ILogger."""

    def __init__(self):
        self.got = []

    def write(self, dictionary, serializer=None):
        self.got.append(dictionary)


# supported (non-deprecated) API calls by the label the interpreter gives them -> the function name that must be behind the label
# (the camelCase aliases share labels with their replacements and are deprecated)
STRICT_CALLS = {"log_message": "log_message", "Action.log": "log", "start_action": "start_action", "start_task": "start_task",
                "write_traceback": "write_traceback", "write_traceback(exc_info=)": "write_traceback", "MessageType.log": "log",
                "Action.finish": "finish", "add_success_fields": "add_success_fields", "Action.finish inside its own context()": "finish",
                "continue_task": "continue_task", "serialize_task_id": "serialize_task_id", "preserve_context": "preserve_context"}


def _raise_with_locals(exc, nid):
    marker_local = ("kept", nid)  # noqa: F841 (looked up through the traceback afterwards)
    raise exc


class _LazyText(object):
    def __init__(self, text):
        self.text = text

    def __str__(self):
        return self.text


class _TeeLogger(object):
    """An application-defined ILogger: counts what passes through, forwards to the production logger and returns a (truthy) value;
    ILogger.write's return value is unspecified and must not matter to anybody."""
    seen = 0

    def write(self, dictionary, serializer=None):
        _TeeLogger.seen += 1
        eliot.Logger().write(dictionary, serializer)
        return _TeeLogger.seen


class Interp(object):
    def __init__(self, tape=None, remote_fork=None, finish_outside=True, ser_hook=None):
        self.tape = tape
        self.forest = []  # ground truth: list of root nodes
        self.violations = []
        self.probes = 0
        self.api_calls = 0
        self.crossmap = {}
        self.remote_fork = remote_fork  # callable(interp, node, tid) for via == "fork"
        self.counters = {}
        self.ser_hook = ser_hook  # wraps serializer functions (C13)
        self.tls = threading.local()
        self.after_api = None  # called after every eliot API call that returned (C11 acknowledgements)
        self._stdlib = None
        self.tb_without_exception = False
        self.memory_loggers = False
        self._memlog = None
        self.late_calls = False
        self.strict_warnings = False
        self.cross_thread = False  # part of the action blocks are entered and run on another thread than the one that created the Action
        self.stdlib_bad_format = False  # part of the stdlib messages are logged with arguments that do not fit their format string
        self.stdlib_tb = False  # part of the traceback nodes go through logging.Logger.error(exc_info=...) and eliot.stdlib.EliotHandler
        self.before_msg = None  # hooks around every message-logging node: mark = before_msg(); ...; after_msg(mark)
        self.after_msg = None
        self.late_messages = False  # log a message in the context of an action that has just been finished (inside its own context())
        self._stdlib_lock = threading.Lock()
        self.explicit_loggers = False  # pass an explicit eliot.Logger() to the calls that take one, for a third of the nodes
        self.allow_defer = False  # run remote nodes marked "defer" only after the whole program (parent already finished)
        self.deferred = []

    # ----------------------------------------------------------------- bookkeeping
    def count(self, key, n=1):
        self.counters[key] = self.counters.get(key, 0) + n

    def viol(self, msg, mech=None, **detail):
        if len(self.violations) < 20:
            self.violations.append({"msg": msg, "mech": mech, "detail": detail})

    def note(self, kind, **data):
        if self.tape is not None:
            self.tape.add(kind, **data)

    def lg(self, nid):
        """Some calls name the production logger explicitly (the API accepts one everywhere); the rest use the default."""
        if self.explicit_loggers and isinstance(nid, int) and nid % 3 == 0:
            if self.memory_loggers and nid % 4 == 3:
                # an in-memory test logger as explicit logger: it validates what it is given while the program logs
                if self._memlog is None:
                    self._memlog = eliot.MemoryLogger()
                return (self._memlog,)
            if nid % 2 == 0:
                return (_TeeLogger(),)  # an application's own ILogger (forwards to the production logger, returns a value)
            return (eliot.Logger(),)
        return ()

    def _stdlib_logger(self):
        import logging
        with self._stdlib_lock:
            if self._stdlib is None:
                from eliot.stdlib import EliotHandler
                logging.raiseExceptions = False  # (production setting: Handler.handleError stays silent instead of printing to stderr)
                lg_ = logging.Logger("vf.stdlib")  # an object of its own, not the registry's: one handler per interpreter
                lg_.propagate = False
                lg_.setLevel(logging.DEBUG)

                class _Handler(EliotHandler):
                    def createLock(self):
                        # no handler-level lock: emit() runs eliot code that the line-granular scheduler may suspend, and a real
                        # lock held across a suspension would block the other threads for real
                        self.lock = None
                lg_.addHandler(_Handler())
                self._stdlib = lg_
        return self._stdlib

    def _presink(self, m, nid):
        """Part of the Message objects are first written, from a context without an action, to a separate logger object (an
        in-memory audit sink) and only then to the log proper: the second write must be unaffected by the first."""
        if not (self.explicit_loggers and isinstance(nid, int) and nid % 4 == 1):
            return
        import contextvars
        sink = _Sink()
        self.api("Message.write(sink)", contextvars.Context().run, m.write, sink)
        self.count("msg:written to a sink first")
        if len(sink.got) != 1 or sink.got[0].get("nid") != nid:
            self.viol("a message written to an explicit logger object reached it %d times" % len(sink.got))

    def api(self, what, fn, *a, **kw):
        """Call an eliot API; it must not raise."""
        self.api_calls += 1
        try:
            with warnings.catch_warnings():
                # deprecated entry points warn by design; with strict_warnings the process runs with warnings turned into errors
                # (python -W error, pytest's filterwarnings=error) and every supported, non-deprecated call must still return
                if self.strict_warnings and what in STRICT_CALLS and getattr(fn, "__name__", "") == STRICT_CALLS[what]:
                    warnings.simplefilter("error")
                    self.counters["api calls with warnings as errors"] = self.counters.get("api calls with warnings as errors", 0) + 1
                else:
                    warnings.simplefilter("ignore")
                r = fn(*a, **kw)
            if self.after_api is not None:
                self.after_api()
            return True, r
        except BaseException as e:
            self.viol("eliot API call %s raised %s: %s" % (what, type(e).__name__, excs.safe_text(e)[1]),
                      mech=getattr(self, "api_mech", lambda w, e: None)(what, e), call=what)
            return False, None

    def probe(self, expected, where):
        self.probes += 1
        got = current_action()
        if got is not expected:
            self.viol("current_action() is %r, expected %r (%s)" % (got, expected, where), where=where)
            return False
        return True

    # ----------------------------------------------------------------- ground truth helpers
    def _attach(self, gt_children, node):
        self._seq = getattr(self, "_seq", 0) + 1
        node["seq"] = self._seq
        if gt_children is None:
            self.forest.append(node)
        else:
            gt_children.append(node)

    @staticmethod
    def _fail_fields(exc, extractors=None):
        cls = type(exc)
        ok, text = excs.safe_text(exc)
        out = {}
        if extractors is not None:
            out.update(extractors(exc))
        elif isinstance(exc, OSError):
            out["errno"] = exc.errno
        # the class name and text are always recorded, whatever an extractor returns under those names
        out.update({"exception": excs.qualname(cls), "reason": text if ok else ANYTEXT})
        return out

    def _ser(self, name):
        f = SER[name]
        if self.ser_hook is not None:
            return self.ser_hook(name, f)
        return f

    def _typed_fields(self, decl, with_nid=True):
        fields = [Field(k, self._ser(s), "") for k, s in decl.items()]
        if with_nid:
            fields.append(Field.for_types("nid", [int], "node id"))
        return fields

    def _message_type(self, t, decl):
        """Type objects are module-level constants in real programs: reuse one object for equal definitions."""
        if self.ser_hook is not None:
            return MessageType(t, self._typed_fields(decl), "")
        key = ("m", t, tuple(sorted(decl.items())))
        cache = self.__dict__.setdefault("_types", {})
        if key not in cache:
            cache[key] = MessageType(t, self._typed_fields(decl), "")
        return cache[key]

    def _action_type(self, t, decl_start, decl_success):
        if self.ser_hook is not None:
            return ActionType(t, self._typed_fields(decl_start), self._typed_fields(decl_success, with_nid=False), "")
        key = ("a", t, tuple(sorted(decl_start.items())), tuple(sorted(decl_success.items())))
        cache = self.__dict__.setdefault("_types", {})
        if key not in cache:
            cache[key] = ActionType(t, self._typed_fields(decl_start), self._typed_fields(decl_success, with_nid=False), "")
        return cache[key]

    @staticmethod
    def _expect(fields, decl):
        if not decl:
            # keys named like eliot's own metadata are overwritten by eliot's values, so they are not expected as logged
            return {k: v for k, v in fields.items() if k not in ("timestamp", "task_level", "task_uuid")}
        return {k: (SER[decl[k]](v) if k in decl else v) for k, v in fields.items()}

    # ----------------------------------------------------------------- running
    def run(self, program):
        """Run a whole program from a context with no current action."""
        self.exec_children(program, None, None, top=True)
        while self.deferred:
            # continuations of serialized ids whose originating actions have long finished
            job = self.deferred.pop(0)
            self.count("remote:deferred")
            job()
        return self.forest

    def exec_children(self, children, gt_children, cur, top=False):
        """Run nodes in order. `cur` is the eliot action expected to be current (shadow stack top)."""
        for node in children:
            try:
                self.exec_node(node, gt_children, cur)
            except BaseException as e:
                if top:
                    # boundary: whatever is still travelling is caught here
                    self.crossmap.pop(id(e), None)
                    continue
                raise

    def exec_node(self, node, gt_children, cur):
        k = node["k"]
        self.probe(cur, "before node %s" % node["nid"])
        if k == "msg":
            self.exec_msg(node, gt_children, cur)
        elif k == "reseed":
            import random as _random
            _random.seed(node["seed"])  # what an application may do at any time; task identifiers must not depend on it
        elif k == "tb":
            self.exec_tb(node, gt_children, cur)
        elif k == "act":
            self.exec_act(node, gt_children, cur)
        elif k == "remote":
            self.exec_remote(node, gt_children, cur)
        else:
            raise AssertionError(k)
        self.probe(cur, "after node %s" % node["nid"])

    # ----------------------------------------------------------------- messages
    def exec_msg(self, node, gt_children, cur):
        style = node["style"]
        t = node["type"]
        fields = dict(node["fields"])
        fields["nid"] = node["nid"]
        decl = node.get("decl")
        self.count("msg:" + style)
        mark = self.before_msg() if self.before_msg is not None else None
        try:
            return self._exec_msg(node, gt_children, cur, style, t, fields, decl)
        finally:
            if self.after_msg is not None:
                self.after_msg(mark)

    def _exec_msg(self, node, gt_children, cur, style, t, fields, decl):
        if style == "action.log" and cur is None:
            style = "log_message"
        if style == "log_message":
            self.api("log_message", log_message, message_type=t, **fields)
        elif style == "action.log":
            self.api("Action.log", cur.log, message_type=t, **fields)
        elif style == "Message.log":
            self.api("Message.log", Message.log, message_type=t, **fields)
        elif style == "Message.new.write":
            ok, m = self.api("Message.new", Message.new, message_type=t, **fields)
            if ok:
                self._presink(m, node["nid"])
                self.api("Message.write", m.write, *self.lg(node["nid"]))
        elif style == "Message.bind.write":
            # fields split between new() and one or two bind() calls; bind must not lose or overwrite earlier fields
            keys = list(fields)
            a = {k: fields[k] for k in keys[0::2]}
            b = {k: fields[k] for k in keys[1::2]}
            ok, m = self.api("Message.new", Message.new, message_type=t, **a)
            if ok:
                ok, m2 = self.api("Message.bind", m.bind, **b)
                if ok:
                    ok, m3 = self.api("Message.bind", m2.bind)
                    if ok and (m.contents() != dict(a, message_type=t)):
                        self.viol("Message.bind modified the message it was called on")
                    if ok:
                        self.api("Message.write", m3.write)
        elif style == "stdlib":
            # through the standard library's logging package and eliot.stdlib.EliotHandler; the handler is created and attached
            # wherever the program first needs it (usually inside some action)
            lg_ = self._stdlib_logger()
            text = "stdlib message nid=%s" % (node["nid"],)
            if isinstance(node["nid"], int) and node["nid"] % 3 == 1:
                # the record's msg is an object (an exception instance, a lazily formatted message), not a string
                obj = ValueError(text) if node["nid"] % 2 else _LazyText(text)
                self.api("logging.Logger.warning(object)", lg_.warning, obj)
            elif isinstance(node["nid"], int) and node["nid"] % 5 == 2:
                # no %-arguments at all: the text is taken as it is, per cent signs included ("progress: 100% done", pre-formatted text)
                text = "stdlib message 100% done, %d%% of %s nid=" + str(node["nid"])
                self.count("msg:stdlib text with per cent signs and no arguments")
                self.api("logging.Logger.warning(text with %, no args)", lg_.warning, text)
            elif self.stdlib_bad_format and isinstance(node["nid"], int) and node["nid"] % 5 == 3:
                # the arguments do not fit the format string: the logging package's contract is that the handler deals with it
                # (Handler.handleError), the application's call returns; nothing is logged for it
                self.count("msg:stdlib arguments do not fit the format")
                import logging as _logging
                old_raise = _logging.raiseExceptions
                _logging.raiseExceptions = False  # (production setting: handleError stays silent instead of printing to stderr)
                try:
                    self.api("logging.Logger.warning(arguments do not fit the format)", lg_.warning, "stdlib %d items nid=%s", "many", node["nid"])
                finally:
                    _logging.raiseExceptions = old_raise
                return
            else:
                self.api("logging.Logger.warning", lg_.warning, "stdlib message nid=%s", node["nid"])
            t, decl = "eliot:stdlib", None
            fields = {"log_level": "WARNING", "logger": lg_.name, "message": text, "nid": node["nid"]}
        elif style == "MessageType.log":
            mt = self._message_type(t, decl)
            self.api("MessageType.log", mt.log, **fields)
        elif style == "MessageType.call.write":
            mt = self._message_type(t, decl)
            ok, m = self.api("MessageType()", mt, **fields)
            if ok:
                self._presink(m, node["nid"])
                self.api("Message.write", m.write, *self.lg(node["nid"]))
        else:
            raise AssertionError(style)
        gt = {"kind": "message", "type": t, "fields": self._expect(fields, decl), "nid": node["nid"]}
        self._attach(None if cur is None else gt_children, gt)

    def exec_tb(self, node, gt_children, cur):
        exc = excs.make(node["exc"], "tb nid=%d" % node["nid"])
        self.count("traceback")
        if self.tb_without_exception and node["nid"] % 4 == 3:
            # write_traceback() in a finally block on the success path / after the except block is over: nothing is being handled.
            # (eliot reports a serialization failure instead; only "does not raise" is judged, by the checks that switch this on)
            self.count("traceback:no exception in flight")
            if node["nid"] % 8 == 3:
                self.api("write_traceback()", write_traceback)
            else:
                import sys as _sys
                self.api("write_traceback(exc_info=(None, None, None))", write_traceback, exc_info=_sys.exc_info())
            return
        if self.stdlib_tb and node["nid"] % 3 == 2:
            # through the standard library: logger.error(..., exc_info=<saved>) after the except block is over, or while a different
            # exception is being handled; the record's exception is the one whose traceback gets logged
            import sys as _sys
            try:
                raise exc
            except Exception:
                info = _sys.exc_info()
            lg_ = self._stdlib_logger()
            text = "stdlib message nid=%s" % (node["nid"],)
            if node["nid"] % 2:
                self.api("logging.Logger.error(exc_info=saved)", lg_.error, "stdlib message nid=%s", node["nid"], exc_info=info)
            else:
                try:
                    raise KeyError("another exception is being handled")
                except KeyError:
                    self.api("logging.Logger.error(exc_info=saved) while handling another", lg_.error, "stdlib message nid=%s", node["nid"], exc_info=info)
            del info
            self.count("traceback:stdlib exc_info")
            gt0 = {"kind": "message", "type": "eliot:stdlib", "fields": {"log_level": "ERROR", "logger": lg_.name, "message": text, "nid": node["nid"]},
                   "nid": node["nid"]}
            self._attach(None if cur is None else gt_children, gt0)
        elif node["nid"] % 3 == 1:
            # the exc_info form, used after the except block has been left
            import sys as _sys
            try:
                raise exc
            except Exception:
                info = _sys.exc_info()
            self.api("write_traceback(exc_info=)", write_traceback, exc_info=info)
            del info
        else:
            try:
                _raise_with_locals(exc, node["nid"])
            except Exception:
                import sys as _sys
                self.api("write_traceback", eliot.writeTraceback if node["nid"] % 2 else write_traceback, *self.lg(node["nid"]))
                # the traceback belongs to the application (it may re-raise, or hand it to a crash reporter): logging leaves it alone
                tb = _sys.exc_info()[2]
                while tb is not None and tb.tb_frame.f_code.co_name != "_raise_with_locals":
                    tb = tb.tb_next
                if tb is None or tb.tb_frame.f_locals.get("marker_local") != ("kept", node["nid"]):
                    self.viol("write_traceback altered the application's traceback: the locals of the frame that raised are %r" % (
                        None if tb is None else dict(tb.tb_frame.f_locals),))
                del tb
        f = self._fail_fields(exc, getattr(self, "extractors", None))
        f["traceback"] = ANYTEXT
        gt = {"kind": "message", "type": "eliot:traceback", "fields": f, "nid": node["nid"], "tb": True}
        self._attach(None if cur is None else gt_children, gt)

    # ----------------------------------------------------------------- actions
    def _body(self, node, gt, action):
        """Children, then the planned outcome."""
        self.probe(action, "inside action %s" % node["nid"])
        self.exec_children(node["children"], gt["children"], action)
        self.probe(action, "inside action %s after children" % node["nid"])
        if node.get("outcome") == "raise" and not node.get("early_finish"):
            exc = excs.make(node["exc"], "nid=%d" % node["nid"])
            self.crossmap[id(exc)] = node.get("cross", 0)
            self._keep = getattr(self, "_keep", [])
            self._keep.append(exc)  # keep alive so id() stays unique
            raise exc

    def _finish_gt(self, gt, node, out, success_expected):
        if out is None:
            gt["status"] = "succeeded"
            gt["end"] = success_expected
        else:
            gt["status"] = "failed"
            gt["end"] = self._fail_fields(out, getattr(self, "extractors", None))
            gt["exc_class"] = type(out).__name__

    def _propagate(self, out):
        if out is None:
            return
        rem = self.crossmap.get(id(out), 0)
        if rem > 0:
            self.crossmap[id(out)] = rem - 1
            raise out
        self.crossmap.pop(id(out), None)

    def exec_act(self, node, gt_children, cur):
        style = node["style"]
        t = node["type"]
        start = dict(node["start"])
        start["nid"] = node["nid"]
        success = dict(node["success"])
        self.count("act:" + style)
        new_tree = style in ("as_task", "start_task")
        gt = {"kind": "action", "type": t, "nid": node["nid"], "style": style,
              "start": self._expect(start, node.get("decl_start")), "status": "started", "end": None, "children": []}
        success_expected = self._expect(success, node.get("decl_success"))

        if style == "log_call":
            return self._exec_log_call(node, gt, gt_children, cur, start)
        if style in ("gen_with", "gen_context"):
            return self._exec_gen_style(node, gt, gt_children, cur, start, success_expected)

        # ---- start the action
        if style in ("with", "ctx_finish", "run_finish", "ctx_finish_inside", "pre_created"):
            ok, action = self.api("start_action", eliot.startAction if node["nid"] % 5 == 0 else start_action, *self.lg(node["nid"]), action_type=t, **start)
        elif style == "start_task":
            ok, action = self.api("start_task", eliot.startTask if node["nid"] % 2 else start_task, *self.lg(node["nid"]), action_type=t, **start)
        else:
            at = self._action_type(t, node["decl_start"], node["decl_success"])
            if style == "ActionType":
                ok, action = self.api("ActionType()", at, *self.lg(node["nid"]), **start)
            else:
                ok, action = self.api("ActionType.as_task", at.as_task, *self.lg(node["nid"]), **start)
        if not ok:
            return
        self._attach(None if (new_tree or cur is None) else gt_children, gt)
        self.note("action_started", nid=node["nid"], uuid=action.task_uuid)
        self.probe(cur, "after starting action %s (not yet entered)" % node["nid"])

        body_exc = [None]
        out = None

        def reentered(kinds):
            # re-enter the context()/run() of the action that is already current
            if not kinds:
                return self._body(node, gt, action)
            self.count("reenter:" + kinds[0])
            try:
                if kinds[0] == "context":
                    with action.context():
                        reentered(kinds[1:])
                else:
                    action.run(reentered, kinds[1:])
            finally:
                self.probe(action, "after leaving re-entered %s of action %s" % (kinds[0], node["nid"]))

        early = [None]

        def guarded_body():
            try:
                reentered(node.get("reenter") or [])
                if node.get("early_finish"):
                    # the program finishes the action itself at the very end of the block; __exit__ must then add nothing
                    # and must not swallow whatever the block raises afterwards
                    self.count("early_finish")
                    if node["early_finish"] == "exc":
                        early[0] = excs.make("RuntimeError", "early finish nid=%d" % node["nid"])
                        self.api("Action.finish(exc) inside the block", action.finish, early[0])
                    else:
                        self.api("add_success_fields", action.add_success_fields, **success)
                        self.api("Action.finish() inside the block", action.finish)
                        early[0] = "ok"
                    if node.get("outcome") == "raise":
                        exc = excs.make(node["exc"], "after early finish nid=%d" % node["nid"])
                        self.crossmap[id(exc)] = node.get("cross", 0)
                        self._keep = getattr(self, "_keep", [])
                        self._keep.append(exc)
                        raise exc
                    return
                if len(success) >= 2 and node["nid"] % 2:
                    # success fields may be added in several calls
                    ks = list(success)
                    self.api("add_success_fields", action.add_success_fields, **{k: success[k] for k in ks[:1]})
                    self.api("addSuccessFields", action.addSuccessFields, **{k: success[k] for k in ks[1:]})
                else:
                    self.api("add_success_fields", action.add_success_fields, **success)
            except BaseException as e:
                body_exc[0] = e
                raise

        if style in ("with", "ActionType", "as_task", "start_task", "ctx_finish", "run_finish") and self.cross_thread and node["nid"] % 5 == 2:
            # the Action object was created here, its block is entered, run and left on ANOTHER thread (joined at once): the action is
            # current there for the length of the block, that thread has no current action before and after, this thread is unaffected
            self.count("act:block on another thread")
            box = []

            def on_thread():
                self.probe(None, "on a new thread before entering action %s created by its parent thread" % node["nid"])
                try:
                    if style == "ctx_finish":
                        with action.context():
                            guarded_body()
                    elif style == "run_finish":
                        action.run(guarded_body)
                    else:
                        with action:
                            guarded_body()
                except BaseException as e:
                    box.append(e)
                self.probe(None, "on the new thread after leaving action %s" % node["nid"])
            th = threading.Thread(target=on_thread)
            th.start()
            th.join()
            out = box[0] if box else None
        elif style in ("with", "ActionType", "as_task", "start_task"):
            try:
                with action:
                    guarded_body()
            except BaseException as e:
                out = e
        elif style == "pre_created":
            # the action object was created above (under `cur`) but its block is entered inside another action:
            # leaving the block must restore the action current at ENTRY (the wrapper), not the one current at creation
            wrap_gt = {"kind": "action", "type": "wrap", "nid": "w%s" % node["nid"], "style": "with", "start": {"nid": "w%s" % node["nid"]}, "status": "started",
                       "end": None, "children": []}
            try:
                with start_action(action_type="wrap", nid="w%s" % node["nid"]) as wrapper:
                    self._attach(None if cur is None else gt_children, wrap_gt)
                    try:
                        with action:
                            guarded_body()
                    except BaseException as e:
                        out = e
                    self.probe(wrapper, "after leaving action %s entered inside another action than it was created under" % node["nid"])
                wrap_gt["status"], wrap_gt["end"] = "succeeded", {}
            except BaseException as e:  # pragma: no cover
                self.viol("wrapper action raised %r" % (e,))
        elif style == "ctx_finish_inside":
            # finish() called while the action's own context() is still entered
            try:
                with action.context():
                    try:
                        guarded_body()
                    except BaseException as e:
                        out = e
                    self.api("Action.finish inside its own context()", action.finish, out)
                    self.probe(action, "after finish() inside action %s's own context()" % node["nid"])
                    if self.late_messages and node["nid"] % 2 == 0:
                        # still inside the context of the (now finished) action: the message is logged there, after its end
                        self.count("msg:after the action's end")
                        mark = self.before_msg() if self.before_msg is not None else None
                        self.api("log_message after finish()", log_message, message_type="late", late_for=node["nid"])
                        if self.after_msg is not None:
                            self.after_msg(mark)
            except BaseException as e:
                self.viol("leaving context() of action %s raised %r" % (node["nid"], e))
        elif style == "ctx_finish":
            try:
                with action.context():
                    guarded_body()
            except BaseException as e:
                out = e
        elif style == "run_finish":
            try:
                action.run(guarded_body)
            except BaseException as e:
                out = e
        if out is not body_exc[0]:
            self.viol("exception leaving the block of action %s is %r, body raised %r" % (node["nid"], out, body_exc[0]),
                      mech=getattr(self, "exc_mech", lambda n, o, b: None)(node, out, body_exc[0]))
            out = body_exc[0]
        self.probe(cur, "after leaving action %s (%s)" % (node["nid"], "raise" if out is not None else "return"))
        if style in ("ctx_finish", "run_finish"):
            self.api("Action.finish", action.finish, out)
        if early[0] is None:
            self._finish_gt(gt, node, out, success_expected)
        elif early[0] == "ok":
            self._finish_gt(gt, node, None, success_expected)
        else:
            self._finish_gt(gt, node, early[0], success_expected)
        for kind in node.get("enter_after_finish", ()):
            # entering the context()/run() of an action that has already finished still makes it the current action
            self.count("enter_after_finish:" + kind)
            if kind == "run":
                action.run(lambda: self.probe(action, "inside run() of the finished action %s" % node["nid"]))
            else:
                with action.context():
                    self.probe(action, "inside context() of the finished action %s" % node["nid"])
            self.probe(cur, "after leaving %s of the finished action %s" % (kind, node["nid"]))
        if self.late_calls and node["nid"] % 4 == 1:
            # bookkeeping that arrives late (a completion callback, a finally block): fields for an action that has already ended are ignored
            self.count("late add_success_fields")
            self.api("add_success_fields after the action ended", action.add_success_fields, late_field=node["nid"])
        for i in range(node.get("extra_finish", 0)):
            self.count("extra_finish")
            if i % 2:
                self.api("Action.finish(again, exc)", action.finish, RuntimeError("late"))
            else:
                self.api("Action.finish(again)", action.finish)
        self._propagate(out)

    def _exec_gen_style(self, node, gt, gt_children, cur, start, success_expected):
        """The action's block lives in a plain generator: entered by next(), left by close() or throw()."""
        style = node["style"]
        holder = []

        def g():
            a = start_action(action_type=node["type"], **start)
            holder.append(a)
            if style == "gen_with":
                with a:
                    yield 1
            else:
                with a.context():
                    yield 1

        gen = g()
        try:
            with warnings.catch_warnings():
                warnings.simplefilter("ignore")
                next(gen)
        except BaseException as e:
            self.viol("starting/entering an action inside a generator raised %r" % (e,))
            return
        action = holder[0]
        self._attach(None if cur is None else gt_children, gt)
        # a plain generator shares its driver's context: the action is current in the driver now
        out = None
        try:
            self._body(node, gt, action)
        except BaseException as e:
            out = e
        left = None
        try:
            if out is None:
                self.count("generator_close")
                gen.close()
            else:
                self.count("generator_throw")
                gen.throw(out)
        except BaseException as e:
            left = e
        if isinstance(out, StopIteration) and isinstance(left, RuntimeError) and left.__cause__ is out:
            left = out  # PEP 479: Python itself wraps a StopIteration leaving a generator frame
        if left is not out:
            self.viol("exception leaving generator-held block of action %s is %r, thrown in %r" % (node["nid"], left, out))
        self.probe(cur, "after closing generator-held action %s (%s)" % (node["nid"], "throw" if out is not None else "close"))
        if style == "gen_with":
            if out is None:
                # close() makes GeneratorExit escape the with-block: a failed action by C03's rule
                gt["status"] = "failed"
                gt["end"] = {"exception": "builtins.GeneratorExit", "reason": ""}
                gt["exc_class"] = "GeneratorExit"
            else:
                self._finish_gt(gt, node, out, success_expected)
        else:
            self.api("Action.finish", action.finish, out)
            self._finish_gt(gt, node, out, {})
        self._propagate(out)

    def _exec_log_call(self, node, gt, gt_children, cur, start):
        names = list(start)
        holder = {}
        src = "def fn(%s):\n    return __body__()\n" % ", ".join(names)
        action_seen = [None]
        body_exc = [None]

        def body():
            action = current_action()
            action_seen[0] = action
            try:
                self._body(node, gt, action)
            except BaseException as e:
                body_exc[0] = e
                raise
            return node["result"]

        ns = {"__body__": body}
        exec(src, ns)
        fn = ns["fn"]
        fn.__module__ = "vf.generated"
        fn.__qualname__ = "fn%d" % node["nid"]
        try:
            decorated = log_call(action_type=node["type"])(fn)
        except BaseException as e:
            self.viol("log_call decoration raised %r" % (e,))
            return
        self._attach(None if cur is None else gt_children, gt)
        out = None
        res = holder
        try:
            res = decorated(**start)
        except BaseException as e:
            out = e
        if out is not body_exc[0]:
            self.viol("exception leaving log_call function of action %s is %r, body raised %r" % (node["nid"], out, body_exc[0]))
            out = body_exc[0]
        if action_seen[0] is None or action_seen[0] is cur:
            self.viol("log_call body did not run inside a new action (node %s)" % node["nid"])
        if out is None and res is not node["result"]:
            self.viol("log_call returned %r instead of the function's own result object" % (res,))
        self._finish_gt(gt, node, out, {"result": node["result"]})
        self._propagate(out)

    # ----------------------------------------------------------------- remote
    def exec_remote(self, node, gt_children, cur):
        if cur is None:
            # needs a current action; degrade to a plain message so the program stays meaningful
            return self.exec_msg({"k": "msg", "nid": node["nid"], "style": "log_message", "type": "app:degraded", "fields": {}}, gt_children, cur)
        api = node["api"]
        via = node["via"]
        self.count("remote:%s:%s" % (api, via))
        gt = {"kind": "action", "type": node["type"], "nid": node["nid"], "style": "remote:" + api, "start": self._expect(node["start"], None),
              "status": "started", "end": None, "children": [], "remote": True}
        if api == "continue_task":
            gt["start"]["nid"] = node["nid"]
            ok, tid = self.api("serialize_task_id", cur.serializeTaskId if node["nid"] % 4 == 0 else cur.serialize_task_id)
            if not ok:
                return
            self._attach(gt_children, gt)  # the position is reserved now
            self.note("reserved", uuid=cur.task_uuid, tid=tid.decode("ascii") if isinstance(tid, bytes) else str(tid), nid=node["nid"])
            if not isinstance(tid, bytes):
                self.viol("serialize_task_id returned %r, not bytes" % (tid,))
            if node["idform"] == "str":
                tid = tid.decode("ascii")
            if via == "fork":
                return self.remote_fork(self, node, gt, tid)

            def remote(expect_outer):
                self.probe(expect_outer, "remote side of %s before continue_task" % node["nid"])
                ok, action = self.api("continue_task", Action.continueTask if node["nid"] % 4 == 1 else Action.continue_task, task_id=tid,
                                      action_type=node["type"], **dict(node["start"], nid=node["nid"]))
                if not ok:
                    return
                self._run_remote_action(node, gt, action, expect_outer)

            if node.get("defer") and self.allow_defer and via != "fork":
                def later():
                    self._seq = getattr(self, "_seq", 0) + 1
                    gt["seq"] = self._seq  # its first message is emitted only now
                    gt["deferred"] = True
                    self._dispatch(via, remote, None)
                self.deferred.append(later)
            else:
                self._dispatch(via, remote, cur)
        else:
            holder = {}

            def f(a, b=None, **kw):
                action = current_action()
                holder["action"] = action
                if action is None or action is cur:
                    self.viol("preserve_context callable did not run in a new action (node %s)" % node["nid"])
                holder["args"] = (a, b)
                holder["kw"] = kw
                try:
                    self._body(node, gt, action)
                except BaseException as e:
                    holder["exc"] = e
                    raise
                return holder

            # the callable handed over is a function, a functools.partial, an object with __call__ or a bound method
            ckind = ("function", "partial", "instance", "method")[node["nid"] % 4] if isinstance(node["nid"], int) else "function"
            self.count("preserve_context:" + ckind)
            call_args = (1,)
            if ckind == "function":
                passed = f
            elif ckind == "partial":
                import functools
                passed = functools.partial(f, 1)
                call_args = ()
            else:
                class _Callable(object):
                    def __call__(self, a, b=None, **kw):
                        return f(a, b, **kw)

                    def method(self, a, b=None, **kw):
                        return f(a, b, **kw)
                passed = _Callable() if ckind == "instance" else _Callable().method
            ok, g = self.api("preserve_context", preserve_context, passed)
            if not ok:
                return
            if g is passed:
                self.viol("preserve_context returned f itself although an action is current")
            # the callable is now the only reference to what was handed over (`Thread(target=preserve_context(Worker(x).run))`)
            del passed
            import gc
            gc.collect()
            self._attach(gt_children, gt)
            self.note("reserved", uuid=cur.task_uuid, tid=None, nid=node["nid"])

            def remote(expect_outer):
                self.probe(expect_outer, "remote side of %s before preserved call" % node["nid"])
                out = None
                res = None
                try:
                    # keyword arguments may have any name, also names the library uses for its own parameters
                    extra = {}
                    if isinstance(node["nid"], int) and node["nid"] % 3 == 0:
                        extra = {"f": "a keyword argument named f", "task_id": 7, "args": 1}
                        if ckind in ("function", "partial"):
                            extra["self"] = "a keyword argument named self"
                    res = g(*call_args, b=2, **extra)
                    if out is None and holder.get("kw") != extra:
                        self.viol("preserved callable received keyword arguments %r, called with %r" % (holder.get("kw"), extra))
                except BaseException as e:
                    out = e
                if out is not holder.get("exc"):
                    self.viol("preserved callable raised %r, f raised %r" % (out, holder.get("exc")))
                    out = holder.get("exc")
                if out is None and (res is not holder or holder.get("args") != (1, 2)):
                    self.viol("preserved callable did not pass arguments/result through")
                if out is not None:
                    self.crossmap.pop(id(out), None)
                self._finish_gt(gt, node, out, {})
                self.probe(expect_outer, "remote side of %s after preserved call" % node["nid"])
                try:
                    g()
                    self.viol("second call of preserved callable did not raise TooManyCalls")
                except eliot._action.TooManyCalls:
                    pass
                except BaseException as e:
                    self.viol("second call of preserved callable raised %r" % (e,))

            self._dispatch(via, remote, cur)

    def _run_remote_action(self, node, gt, action, expect_outer):
        body_exc = [None]
        out = None
        try:
            with action:
                try:
                    self._body(node, gt, action)
                except BaseException as e:
                    body_exc[0] = e
                    raise
        except BaseException as e:
            out = e
        if out is not body_exc[0]:
            self.viol("exception leaving remote action %s is %r, body raised %r" % (node["nid"], out, body_exc[0]))
            out = body_exc[0]
        if out is not None:
            self.crossmap.pop(id(out), None)
        self._finish_gt(gt, node, out, {})
        self.probe(expect_outer, "remote side of %s after the action" % node["nid"])

    def _dispatch(self, via, remote, cur):
        if via == "same":
            remote(cur)
        else:
            err = []

            def target():
                try:
                    remote(None)  # a new thread starts with no current action
                except BaseException as e:  # pragma: no cover - harness bug
                    err.append(e)

            t = _RealThread(target=target)
            t.start()
            t.join()
            if err:
                raise err[0]
