"""Offline checkers over recorded executions."""

from .gen import json_equal
from .interp import ANYTEXT

META = ("task_uuid", "task_level", "timestamp")
KINDKEYS = ("action_type", "action_status", "message_type")


# --------------------------------------------------------------------------- forest comparison


def norm_written(node):
    """eliot.parse WrittenAction / WrittenMessage -> plain comparable tree."""
    from eliot.parse import WrittenAction

    if isinstance(node, WrittenAction):
        sm, em = node.start_message, node.end_message
        return {
            "kind": "action",
            "type": node.action_type,
            "status": node.status,
            "start": None if sm is None else {k: v for k, v in dict(sm.contents).items() if k not in KINDKEYS},
            "end": None if em is None else {k: v for k, v in dict(em.contents).items() if k not in KINDKEYS},
            "children": [norm_written(c) for c in node.children],
            "level": node.task_level.as_list(),
        }
    c = dict(node.contents)
    if c.get("message_type") == "eliot:stdlib" and "nid" not in c and isinstance(c.get("message"), str) and " nid=" in c["message"]:
        # messages logged through the standard library bridge carry their node id in the text
        tail = c["message"].rsplit(" nid=", 1)[1]
        c["nid"] = int(tail) if tail.lstrip("-").isdigit() else tail
    return {
        "kind": "message",
        "type": c.get("message_type"),
        "fields": {k: v for k, v in c.items() if k not in ("action_type", "message_type")},  # (action_status is an ordinary field of a message)
        "level": node.task_level.as_list(),
    }


def _cmp_fields(exp, got, path, out, exact=True):
    if got is None:
        out.append("%s: message missing" % path)
        return
    for k, v in exp.items():
        if k not in got:
            out.append("%s: field %r missing" % (path, k))
        elif v is ANYTEXT or v == ANYTEXT:
            if not isinstance(got[k], str):
                out.append("%s: field %r should be text, got %r" % (path, k, got[k]))
        elif not json_equal(v, got[k]):
            out.append("%s: field %r = %r, expected %r" % (path, k, got[k], v))
    if exact:
        for k in got:
            if k not in exp:
                out.append("%s: unexpected field %r = %r" % (path, k, got[k]))


def compare_node(exp, got, path, out):
    if len(out) > 12:
        return
    if exp["kind"] != got["kind"]:
        out.append("%s: expected %s, parsed %s (%r)" % (path, exp["kind"], got["kind"], got.get("type")))
        return
    if exp["type"] != got["type"]:
        out.append("%s: type %r, expected %r" % (path, got["type"], exp["type"]))
    if exp["kind"] == "message":
        _cmp_fields(exp["fields"], got["fields"], path, out)
        return
    if exp["status"] != got["status"]:
        out.append("%s: status %r, expected %r" % (path, got["status"], exp["status"]))
    _cmp_fields(exp["start"], got["start"], path + ".start", out)
    if exp["end"] is not None:
        _cmp_fields(exp["end"], got["end"], path + ".end", out)
    elif got["end"] is not None:
        out.append("%s: unexpected end message" % path)
    if len(exp["children"]) != len(got["children"]):
        out.append("%s: %d children, expected %d (parsed kinds %s)" % (
            path, len(got["children"]), len(exp["children"]), [(c["kind"], c["type"]) for c in got["children"]][:10]))
        return
    for i, (e, g) in enumerate(zip(exp["children"], got["children"])):
        compare_node(e, g, "%s/%d" % (path, i), out)


def root_nid(n):
    if n["kind"] == "message":
        return n["fields"].get("nid")
    return (n["start"] or {}).get("nid")


def compare_forest(expected, tasks):
    """expected: ground truth forest; tasks: list of eliot.parse.Task. Returns list of mismatch strings."""
    out = []
    got = []
    for t in tasks:
        try:
            got.append((t, norm_written(t.root())))
        except BaseException as e:
            out.append("task root not available: %r" % (e,))
    if len(got) != len(expected):
        out.append("parsed %d tasks, executed %d top-level trees" % (len(got), len(expected)))
    # tracebacks at top level have no nid: match those by order among nid-less roots
    by_nid = {}
    nidless = []
    for t, g in got:
        n = root_nid(g)
        if n is None:
            nidless.append((t, g))
        elif n in by_nid:
            out.append("two parsed tasks share root nid %r" % (n,))
        else:
            by_nid[n] = (t, g)
    for e in expected:
        if e.get("tb"):
            if not nidless:
                out.append("top-level traceback message %s not found" % e["nid"])
                continue
            t, g = nidless.pop(0)
        else:
            n = e["nid"]
            if n not in by_nid:
                out.append("no parsed task for top-level node %s (%s %r)" % (n, e["kind"], e["type"]))
                continue
            t, g = by_nid.pop(n)
        if not t.is_complete():
            out.append("task for node %s is not complete" % e["nid"])
        compare_node(e, g, "n%s" % e["nid"], out)
    for n in by_nid:
        out.append("extra parsed task with root nid %r" % (n,))
    for t, g in nidless:
        out.append("extra parsed task %r" % (g.get("type"),))
    return out


# --------------------------------------------------------------------------- placement (C02)


def check_wellformed(m):
    """Clause (a) of C02 for one message dict. Returns list of problems."""
    out = []
    if not isinstance(m.get("task_uuid"), str) or not m.get("task_uuid"):
        out.append("task_uuid missing or not text")
    lvl = m.get("task_level")
    if not isinstance(lvl, list) or not lvl or not all(type(x) is int and x >= 1 for x in lvl):
        out.append("task_level %r is not a non-empty list of positive integers" % (lvl,))
    if type(m.get("timestamp")) is not float:
        out.append("timestamp %r is not a float" % (m.get("timestamp"),))
    has_mt = "message_type" in m
    has_at = "action_type" in m
    if has_mt == has_at:
        out.append("needs exactly one of message_type / action_type")
    if has_at and m.get("action_status") not in ("started", "succeeded", "failed"):
        out.append("action_status %r invalid" % (m.get("action_status"),))
    if has_mt and "action_status" in m:
        out.append("message with action_status")
    return out


def check_placement(entries, allow_gaps=False, structured=True):
    """
    entries: ordered list of ("msg", dict) / ("reserve", uuid, level_list) in tape order, from ONE
    healthy destination.  Returns a list of problems.
    """
    out = []
    seen = {}
    # per action prefix (uuid, tuple(prefix)): list of (k, first_use_index, kind)
    used = {}
    status = {}  # (uuid, prefix) -> {"start": idx, "end": (idx, k)}
    reserved = set()  # (uuid, level) with an explicit reservation event
    remote_roots = set()  # (uuid, level) of eliot:remote_task actions (preserve_context reserves invisibly)
    last_below = {}  # (uuid, prefix) -> idx of last entry at or below that prefix
    for idx, e in enumerate(entries):
        if e[0] == "msg":
            m = e[1]
            probs = check_wellformed(m)
            if probs:
                out.append("message %d malformed: %s: %r" % (idx, "; ".join(probs), {k: m.get(k) for k in META + KINDKEYS}))
                continue
            uuid, lvl = m["task_uuid"], tuple(m["task_level"])
            key = (uuid, lvl)
            if key in seen:
                out.append("two messages share task_uuid %s task_level %s (entries %d and %d)" % (uuid, list(lvl), seen[key], idx))
            seen[key] = idx
            kind = "msg"
            if "action_type" in m:
                kind = "start" if m["action_status"] == "started" else "end"
            if m.get("action_type") == "eliot:remote_task" and kind == "start":
                remote_roots.add((uuid, lvl[:-1]))
        else:
            uuid, lvl = e[1], tuple(e[2])
            kind = "reserve"
            reserved.add((uuid, lvl))
        # register the position at every ancestor prefix: first use of (prefix, k)
        for d in range(len(lvl)):
            prefix = lvl[:d]
            k = lvl[d]
            u = used.setdefault((uuid, prefix), {})
            if k not in u:
                u[k] = idx
            last_below[(uuid, prefix)] = idx
        if kind in ("start", "end"):
            st = status.setdefault((uuid, lvl[:-1]), {})
            if kind in st:
                out.append("action %s%s has two %s messages" % (uuid, list(lvl[:-1]), kind))
            st[kind] = (idx, lvl[-1])
    for (uuid, prefix), u in used.items():
        ks = sorted(u)
        n = ks[-1]
        name = "%s%s" % (uuid[:8], list(prefix))
        st = status.get((uuid, prefix), {})
        is_action = bool(st) or len(prefix) > 0
        if not allow_gaps and ks != list(range(1, n + 1)):
            out.append("positions inside %s are %s, not 1..%d" % (name, ks, n))
        # first uses in increasing order of k; a position reserved invisibly (preserve_context gives the caller no id to
        # observe) is first *seen* when the other thread starts, so it is left out of the order comparison
        order = [u[k] for k in ks if not ((uuid, prefix + (k,)) in remote_roots and (uuid, prefix + (k,)) not in reserved)]
        if order != sorted(order):
            out.append("positions inside %s were first used out of order: %s" % (name, [(k, u[k]) for k in ks]))
        if is_action and not (len(prefix) == 0 and not st and ks == [1]):
            if "start" in st:
                if st["start"][1] != 1:
                    out.append("start message of %s is at position %d" % (name, st["start"][1]))
            if "end" in st:
                if st["end"][1] != n:
                    out.append("end message of %s is at position %d but positions go up to %d" % (name, st["end"][1], n))
                if structured and last_below[(uuid, prefix)] != st["end"][0]:
                    out.append("end message of %s (entry %d) is followed by entry %d below it" % (name, st["end"][0], last_below[(uuid, prefix)]))
            if "start" in st and u.get(1) != st["start"][0]:
                out.append("position 1 of %s was used before its start message" % name)
    return out


def level_is_child_of(level, parent_level):
    return len(level) > len(parent_level) and list(level[: len(parent_level)]) == list(parent_level)
