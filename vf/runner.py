"""
Common driver: tiers, seeds, fork isolation, watchdogs, evidence, verdict lines.

A check module (vf/checks/cNN.py) provides

    ID, LEVEL, RULE, ASSUMPTIONS            constants
    plan(tier, seed) -> list of specs       small JSON-able dicts, one forked child each
    run_case(spec) -> result dict           executed in a pristine forked child
    finalize(agg, tier) -> None | str       optional: reach-counter test, returns reason for INCONCLUSIVE

result dict keys (all optional):
    evals        int    executions performed by this case
    nontrivial   list   hashes (str) of distinct non-trivial sub-cases
    counters     dict   name -> int (summed) ; nested dicts allowed one level
    sets         dict   name -> list of hashable strings (unioned; reported as count + a few members)
    sample       any    a written-out case for the evidence file
    violations   list   of {"msg": str, "mech": str|None, "detail": any}
    inconclusive str    reason
"""

import hashlib
import importlib
import json
import os
import select
import shutil
import signal
import sys
import tempfile
import time
import traceback

VERIF_DIR = os.path.dirname(os.path.dirname(os.path.abspath(__file__)))
REPO = os.environ.get("VERIF_REPO", "/repo")
MAX_STORED_VIOLATIONS = 40


def setup_paths():
    for p in (VERIF_DIR, REPO):
        while p in sys.path:
            sys.path.remove(p)
    sys.path.insert(0, VERIF_DIR)
    sys.path.insert(0, REPO)


def assert_repo():
    import eliot

    here = os.path.realpath(eliot.__file__)
    if not here.startswith(os.path.realpath(REPO) + os.sep):
        raise SystemExit("eliot imported from %s, not from %s" % (here, REPO))


def h(obj):
    """Short structural hash of a JSON-able object."""
    return hashlib.sha1(
        json.dumps(obj, sort_keys=True, default=repr).encode("utf-8", "surrogatepass")
    ).hexdigest()[:16]


def jsonable(o, depth=0):
    """Best-effort conversion for evidence / replay files."""
    if depth > 40:
        return "<deep>"
    if isinstance(o, (str, int, bool)) or o is None:
        if isinstance(o, str):
            return o.encode("utf-8", "backslashreplace").decode("utf-8")
        if isinstance(o, int) and not isinstance(o, bool) and abs(o) > 2**63:
            return "int:%d" % o
        return o
    if isinstance(o, float):
        if o != o or o in (float("inf"), float("-inf")):
            return "float:%r" % o
        return o
    if isinstance(o, (list, tuple)):
        return [jsonable(x, depth + 1) for x in o]
    if isinstance(o, dict):
        out = {}
        for k, v in list(o.items()):
            if not isinstance(k, str):
                try:
                    k = repr(k)
                except BaseException:
                    k = "<%s unrepresentable key>" % type(k).__name__
            out[jsonable(k)] = jsonable(v, depth + 1)
        return out
    if isinstance(o, (set, frozenset)):
        return sorted((jsonable(x, depth + 1) for x in o), key=repr)
    try:
        return "<%s %s>" % (type(o).__name__, repr(o)[:200])
    except BaseException:
        return "<%s unrepresentable>" % type(o).__name__


def _dump(obj):
    return json.dumps(jsonable(obj))


# --------------------------------------------------------------------------- child / worker


SUBCASE_CODE = ("import sys; sys.modules['orjson'] = None; sys.path.insert(0, sys.argv[1]); "
                "from vf import runner; runner._subcase(sys.argv[2], sys.argv[3])")
SUBCASE_CODE_PLAIN = "import sys; sys.path.insert(0, sys.argv[1]); from vf import runner; runner._subcase(sys.argv[2], sys.argv[3])"
INTERPRETERS = {"no_orjson": ([], SUBCASE_CODE),      # orjson unimportable: eliot encodes with the standard library's json (as on PyPy)
                "optimize": (["-O"], SUBCASE_CODE_PLAIN)}  # python -O: assert statements are compiled away


def _subcase(modname, spec_json):
    """Entry point of a fresh interpreter for one case (see _run_in_subprocess)."""
    import importlib
    if REPO not in sys.path[:1]:
        sys.path.insert(0, REPO)  # the tree under test, exactly as main() arranges it
    mod = importlib.import_module(modname)
    spec = json.loads(spec_json)
    try:
        res = mod.run_case(spec) or {}
    except BaseException:
        res = {"evals": 1, "violations": [{"msg": "unexpected exception while executing the case", "mech": None, "detail": traceback.format_exc()[-4000:]}]}
    sys.stdout.flush()
    os.write(1, b"\n@@VF-RESULT@@" + _dump(res).encode("utf-8") + b"\n")
    os._exit(0)


def _run_in_subprocess(mod, spec, timeout):
    """A case that needs a differently configured interpreter (spec["interpreter"] == "no_orjson": the orjson package is made
    unimportable before eliot is imported, so eliot falls back to the standard library's json as it does on PyPy): a fresh python
    process instead of a fork."""
    import subprocess
    here = os.path.dirname(os.path.dirname(os.path.abspath(__file__)))
    try:
        flags, code = INTERPRETERS[spec["interpreter"]]
        p = subprocess.run([sys.executable, "-X", "faulthandler"] + flags + ["-c", code, here, mod.__name__, json.dumps(spec)],
                           capture_output=True, timeout=timeout, start_new_session=True)
    except subprocess.TimeoutExpired:
        return {"inconclusive": "watchdog: case exceeded %ss" % timeout}
    out = p.stdout
    k = out.rfind(b"@@VF-RESULT@@")
    if k < 0:
        return {"inconclusive": "child died without a result (exit status %d): %s" % (p.returncode, p.stderr.decode("utf-8", "replace")[-300:])}
    try:
        return json.loads(out[k + len(b"@@VF-RESULT@@"):].decode("utf-8"))
    except Exception as e:
        return {"inconclusive": "unreadable child result: %r" % (e,)}


def _run_in_child(mod, spec, timeout):
    """Fork, run mod.run_case(spec) in the child, return its result dict."""
    if isinstance(spec, dict) and spec.get("interpreter") in INTERPRETERS:
        return _run_in_subprocess(mod, spec, timeout)
    r, w = os.pipe()
    sys.stdout.flush()
    sys.stderr.flush()
    pid = os.fork()
    if pid == 0:
        code = 0
        try:
            os.close(r)
            try:
                os.setpgid(0, 0)  # own process group: a watchdog kill takes the case's own children with it
            except OSError:
                pass
            try:
                import faulthandler

                faulthandler.enable()
            except Exception:
                pass
            try:
                res = mod.run_case(spec)
                if res is None:
                    res = {}
            except BaseException:
                res = {
                    "evals": 1,
                    "violations": [
                        {
                            "msg": "unexpected exception while executing the case",
                            "mech": None,
                            "detail": traceback.format_exc()[-4000:],
                        }
                    ],
                }
            data = _dump(res).encode("utf-8")
            off = 0
            while off < len(data):
                off += os.write(w, data[off : off + 65536])
            os.close(w)
        except BaseException:
            code = 3
            try:
                traceback.print_exc()
            except BaseException:
                pass
        finally:
            os._exit(code)
    os.close(w)
    chunks = []
    deadline = time.monotonic() + timeout
    timed_out = False
    while True:
        left = deadline - time.monotonic()
        if left <= 0:
            timed_out = True
            break
        ready, _, _ = select.select([r], [], [], min(left, 1.0))
        if ready:
            b = os.read(r, 1 << 20)
            if not b:
                break
            chunks.append(b)
    os.close(r)
    if timed_out:
        for killer in (lambda: os.killpg(pid, signal.SIGKILL), lambda: os.kill(pid, signal.SIGKILL)):
            try:
                killer()
            except OSError:
                pass
    _, status = os.waitpid(pid, 0)
    try:
        os.killpg(pid, signal.SIGKILL)  # stragglers the case left behind (children blocked for good)
    except OSError:
        pass
    if timed_out:
        return {"inconclusive": "watchdog: case exceeded %ss" % timeout}
    raw = b"".join(chunks)
    if not raw:
        return {
            "inconclusive": "child died without a result (wait status %d)" % status
        }
    try:
        return json.loads(raw.decode("utf-8"))
    except Exception as e:
        return {"inconclusive": "unreadable child result: %r" % (e,)}


def _merge(agg, res, spec):
    agg["cases"] += 1
    agg["evals"] += int(res.get("evals", 1))
    for x in res.get("nontrivial", ()):
        agg["nontrivial"][x] = 1
    for k, v in res.get("counters", {}).items():
        if isinstance(v, dict):
            d = agg["counters"].setdefault(k, {})
            for kk, vv in v.items():
                d[kk] = d.get(kk, 0) + vv
        else:
            agg["counters"][k] = agg["counters"].get(k, 0) + v
    for k, v in res.get("sets", {}).items():
        d = agg["sets"].setdefault(k, {})
        for x in v:
            d[x] = 1
    if res.get("sample") is not None and len(agg["samples"]) < 3:
        agg["samples"].append(res["sample"])
    for v in res.get("violations", ()):
        agg["nviol"] += 1
        key = v.get("mech") or ""
        agg["viol_by_mech"][key] = agg["viol_by_mech"].get(key, 0) + 1
        stored = [x for x in agg["violations"] if (x.get("mech") or "") == key]
        if len(stored) < 5 and len(agg["violations"]) < MAX_STORED_VIOLATIONS:
            v = dict(v)
            v["spec"] = spec
            agg["violations"].append(v)
    if res.get("inconclusive"):
        agg["inconclusive"].append(str(res["inconclusive"]))


def _new_agg():
    return {
        "cases": 0,
        "evals": 0,
        "nontrivial": {},
        "counters": {},
        "sets": {},
        "samples": [],
        "violations": [],
        "viol_by_mech": {},
        "nviol": 0,
        "inconclusive": [],
    }


def _merge_aggs(a, b):
    a["cases"] += b["cases"]
    a["evals"] += b["evals"]
    a["nontrivial"].update(b["nontrivial"])
    for k, v in b["counters"].items():
        if isinstance(v, dict):
            d = a["counters"].setdefault(k, {})
            for kk, vv in v.items():
                d[kk] = d.get(kk, 0) + vv
        else:
            a["counters"][k] = a["counters"].get(k, 0) + v
    for k, v in b["sets"].items():
        a["sets"].setdefault(k, {}).update(v)
    for s in b["samples"]:
        if len(a["samples"]) < 4:
            a["samples"].append(s)
    a["nviol"] += b["nviol"]
    for k, v in b["viol_by_mech"].items():
        a["viol_by_mech"][k] = a["viol_by_mech"].get(k, 0) + v
    for v in b["violations"]:
        key = v.get("mech") or ""
        stored = [x for x in a["violations"] if (x.get("mech") or "") == key]
        if len(stored) < 5 and len(a["violations"]) < MAX_STORED_VIOLATIONS:
            a["violations"].append(v)
    a["inconclusive"].extend(b["inconclusive"])


def _next_index(counter_path):
    """Take the next case index from the counter file shared by the workers (under an advisory lock)."""
    import fcntl
    with open(counter_path, "r+") as f:
        fcntl.flock(f, fcntl.LOCK_EX)
        try:
            i = int(f.read() or "0")
            f.seek(0)
            f.truncate()
            f.write(str(i + 1))
            f.flush()
        finally:
            fcntl.flock(f, fcntl.LOCK_UN)
    return i


def _worker(mod, specs, outpath, timeout, counter_path=None):
    """Runs cases one after the other. With a counter file the workers share one queue (each takes the next case that nobody has taken
    yet), so a few long cases do not make one worker finish long after the others."""
    agg = _new_agg()
    if counter_path is not None:
        while True:
            i = _next_index(counter_path)
            if i >= len(specs):
                break
            res = _run_in_child(mod, specs[i], timeout)
            _merge(agg, res, specs[i])
        specs = []
    for spec in specs:
        res = _run_in_child(mod, spec, timeout)
        _merge(agg, res, spec)
    with open(outpath, "w") as f:
        f.write(_dump(agg))


# --------------------------------------------------------------------------- known findings


def load_known(prop):
    path = os.path.join(VERIF_DIR, "KNOWN_FINDINGS.json")
    known = {}
    if os.path.exists(path):
        with open(path) as f:
            for e in json.load(f).get("findings", []):
                if e.get("property") == prop and e.get("status") == "known":
                    known[e["key"]] = e
    return known


# --------------------------------------------------------------------------- main


def main(argv=None):
    argv = list(sys.argv[1:] if argv is None else argv)
    if not argv:
        print("usage: check <ID> [--tier quick|thorough] [--replay PATH]")
        return 2
    prop = argv.pop(0).upper()
    tier = os.environ.get("VERIF_TIER", "quick")
    replay = None
    while argv:
        a = argv.pop(0)
        if a == "--tier":
            tier = argv.pop(0)
        elif a == "--replay":
            replay = argv.pop(0)
        else:
            print("unknown argument", a)
            return 2
    if tier not in ("quick", "thorough"):
        tier = "quick"
    try:
        seed = int(os.environ.get("VERIF_SEED", "0"))
    except ValueError:
        seed = 0
    setup_paths()
    mod = importlib.import_module("vf.checks." + prop.lower())
    assert_repo()
    timeout = getattr(mod, "CASE_TIMEOUT", 300)

    if replay:
        with open(replay) as f:
            rp = json.load(f)
        res = _run_in_child(mod, rp["spec"], timeout)
        print(json.dumps(res, indent=1)[:20000])
        if res.get("violations"):
            print("VIOLATION property=%s replay=%s" % (prop, replay))
            return 1
        return 2 if res.get("inconclusive") else 0

    t0 = time.time()
    specs = mod.plan(tier, seed)
    jobs = int(os.environ.get("VERIF_JOBS", "0")) or (os.cpu_count() or 4)
    jobs = max(1, min(jobs, len(specs)))
    tmp = tempfile.mkdtemp(prefix="vf-%s-" % prop)
    agg = _new_agg()
    try:
        pids = []
        counter = os.path.join(tmp, "next")
        with open(counter, "w") as f:
            f.write("0")
        for w in range(jobs):
            out = os.path.join(tmp, "w%d.json" % w)
            sys.stdout.flush()
            pid = os.fork()
            if pid == 0:
                code = 0
                try:
                    _worker(mod, specs, out, timeout, counter)
                except BaseException:
                    traceback.print_exc()
                    code = 3
                finally:
                    os._exit(code)
            pids.append((pid, out))
        for pid, out in pids:
            _, status = os.waitpid(pid, 0)
            if status != 0 or not os.path.exists(out):
                agg["inconclusive"].append("worker died (status %d)" % status)
                continue
            with open(out) as f:
                _merge_aggs(agg, json.load(f))
    finally:
        shutil.rmtree(tmp, ignore_errors=True)

    wall = time.time() - t0
    fin = getattr(mod, "finalize", None)
    if fin is not None and not agg["nviol"]:
        reason = fin(agg, tier)
        if reason:
            agg["inconclusive"].append(reason)

    # ---- classify violations
    known = load_known(prop)
    new = [v for v in agg["violations"] if (v.get("mech") or "") not in known]
    new_count = sum(n for k, n in agg["viol_by_mech"].items() if k not in known)
    known_hit = {k: n for k, n in agg["viol_by_mech"].items() if k in known}

    # ---- evidence
    coverage = {
        "evaluations": agg["evals"],
        "distinct_nontrivial": len(agg["nontrivial"]),
        "rule": mod.RULE,
        "samples": agg["samples"] or [{"note": "no sample recorded"}],
        "cases_forked": agg["cases"],
        "counters": agg["counters"],
    }
    for k, v in agg["sets"].items():
        coverage["distinct_" + k] = len(v)
        coverage["some_" + k] = sorted(v)[:12]
    if getattr(mod, "EXHAUSTIVE_NOTE", None):
        coverage["exhaustive_parts"] = mod.EXHAUSTIVE_NOTE
    ev = {
        "property_id": prop,
        "tier": tier,
        "seed": seed,
        "level": mod.LEVEL,
        "coverage": coverage,
        "assumptions": list(getattr(mod, "ASSUMPTIONS", [])),
        "wall_s": round(wall, 2),
        "violations": new_count,
        "known_findings_observed": known_hit,
        "verdict": "violated"
        if new_count
        else ("inconclusive" if agg["inconclusive"] else "held on what was observed"),
        "inconclusive_reasons": agg["inconclusive"][:10],
    }
    outdir = os.environ.get("VERIF_EVIDENCE_DIR")  # canary runs keep their output away from /verif/evidence
    evdir = outdir or os.path.join(VERIF_DIR, "evidence")
    rpdir = os.path.join(outdir, "replays") if outdir else os.path.join(VERIF_DIR, "replays")
    os.makedirs(evdir, exist_ok=True)
    with open(os.path.join(evdir, prop + ".json"), "w") as f:
        json.dump(ev, f, indent=1, sort_keys=True)
        f.write("\n")

    # ---- verdict
    print(
        "%s tier=%s seed=%d cases=%d evaluations=%d distinct_nontrivial=%d wall=%.1fs"
        % (prop, tier, seed, agg["cases"], agg["evals"], len(agg["nontrivial"]), wall)
    )
    for k in sorted(agg["counters"]):
        v = agg["counters"][k]
        if isinstance(v, dict):
            v = dict(sorted(v.items())[:14])
        print("  %s: %s" % (k, v))
    for k, v in agg["sets"].items():
        print("  distinct %s: %d" % (k, len(v)))
    for k, n in sorted(known_hit.items()):
        print(
            "KNOWN-FINDING: property=%s %s: %s (observed %d times)"
            % (prop, k, known[k].get("what", ""), n)
        )
    if new_count:
        os.makedirs(rpdir, exist_ok=True)
        first = None
        for i, v in enumerate(new):
            path = os.path.join(rpdir, "%s-%d-%d.json" % (prop, seed, i))
            with open(path, "w") as f:
                json.dump(
                    {
                        "property": prop,
                        "tier": tier,
                        "seed": seed,
                        "spec": v.get("spec"),
                        "msg": v.get("msg"),
                        "mech": v.get("mech"),
                        "detail": v.get("detail"),
                    },
                    f,
                    indent=1,
                )
            if first is None:
                first = path
            print("  violation[%s]: %s" % (v.get("mech") or "-", v.get("msg")))
        print("  (%d violating observations in total; by mechanism: %s)" % (new_count, {k or "-": n for k, n in agg["viol_by_mech"].items() if k not in known}))
        print("VIOLATION property=%s replay=%s" % (prop, first))
        return 1
    if agg["inconclusive"]:
        print(
            "INCONCLUSIVE property=%s reason=%s"
            % (prop, "; ".join(sorted(set(agg["inconclusive"]))[:5]))
        )
        return 2
    print("HELD property=%s on what was observed" % prop)
    return 0
