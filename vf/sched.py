"""
Line-granular deterministic thread scheduler built on sys.monitoring (PEP 669).

* install()  - must run BEFORE eliot is imported: replaces the factories threading.Lock, threading.RLock,
               queue.SimpleQueue (for callers inside the eliot package only) and threading.Thread / threading.Condition
               (subclasses, for everyone; queue.Queue and threading.Event build on Condition) by scheduler-aware versions. Without an active schedule, and for
               threads that are not registered with it, they behave exactly like the originals.
* instrument(modules) - enables LINE events on every code object defined in the given eliot modules.
* Scheduler(plan)     - plan = {"order": [thread names, highest priority first], "changes": [[name, k], ...]}
               Exactly one registered thread runs at a time; every LINE event in instrumented code and every
               blocking primitive is a switch point; a change point (name, k) drops `name` to the lowest
               priority at its k-th switch point (PCT-style). Deterministic and replayable.
"""

import gc
import queue as _queue
import sys
import threading
import time
import types
import _thread

_real_Lock = threading.Lock
_real_RLock = threading.RLock
_real_Thread = threading.Thread
_real_SimpleQueue = _queue.SimpleQueue
_real_Queue = _queue.Queue
_real_Condition = threading.Condition
_tl = threading.local()

ACTIVE = None  # the Scheduler of the schedule being executed, or None
HUNG = False  # set when a wall-clock watchdog fired: some thread blocks outside the scheduler's control; give the case up
RELEASE_HOOKS = []  # callables(lock) run while the lock is still held, just before it is released
INSTALLED = False
TOOL = 0  # sys.monitoring.DEBUGGER_ID


class SchedAbort(BaseException):
    """Raised inside registered threads when a schedule is abandoned (hang -> inconclusive)."""


def _caller_in_eliot(depth=2):
    try:
        name = sys._getframe(depth).f_globals.get("__name__", "")
    except ValueError:
        return False
    return name == "eliot" or name.startswith("eliot.")


# --------------------------------------------------------------------------- replacements


class SchedLock(object):
    """Scheduler-aware lock. The re-entrant flavour is implemented here (owner + count on top of a plain lock) so that it can be
    handed to threading.Condition, which needs _release_save / _acquire_restore / _is_owned."""

    def __init__(self, reentrant=False):
        self._real = _real_Lock()
        self._reentrant = reentrant
        self._owner_ident = None
        self._count = 0
        self._vf_owner = None  # name of the registered thread holding it (for deadlock diagnosis)

    def _acquire_real(self, blocking=True, timeout=-1):
        s = ACTIVE
        if s is None or not blocking or s.me() is None:
            if not blocking:
                return self._real.acquire(False)
            return self._real.acquire(True, timeout)
        # a timed acquire is modelled logically: it expires only when no registered thread can otherwise make progress
        timed = timeout is not None and timeout >= 0
        return s.blocking_op(lambda: self._real.acquire(False), "lock", self, timed=timed)

    def acquire(self, blocking=True, timeout=-1):
        me = _thread.get_ident()
        if self._reentrant and self._owner_ident == me:
            self._count += 1
            return True
        ok = self._acquire_real(blocking, timeout)
        if ok:
            self._owner_ident = me
            self._count = 1
            s = ACTIVE
            self._vf_owner = s.me() if s is not None else None
        return ok

    def release(self):
        if self._reentrant:
            if self._owner_ident != _thread.get_ident():
                raise RuntimeError("cannot release un-acquired lock")
            if self._count > 1:
                self._count -= 1
                return
        if RELEASE_HOOKS:
            for hk in list(RELEASE_HOOKS):
                hk(self)
        self._owner_ident = None
        self._count = 0
        self._vf_owner = None
        self._real.release()
        s = ACTIVE
        if s is not None:
            s.state_changed()

    def locked(self):
        return self._real.locked()

    def __enter__(self):
        self.acquire()
        return self

    def __exit__(self, *a):
        self.release()

    # --- protocol used by threading.Condition
    def _is_owned(self):
        if self._reentrant:
            return self._owner_ident == _thread.get_ident()
        return self._real.locked()

    def _release_save(self):
        state = (self._count, self._owner_ident, self._vf_owner)
        self._count = 0
        self._owner_ident = None
        self._vf_owner = None
        self._real.release()
        s = ACTIVE
        if s is not None:
            s.state_changed()
        return state

    def _acquire_restore(self, state):
        self._acquire_real(True)
        self._count, self._owner_ident, self._vf_owner = state


def Lock():
    if _caller_in_eliot():
        return SchedLock(False)
    return _real_Lock()


def RLock():
    if _caller_in_eliot():
        return SchedLock(True)
    return _real_RLock()


class SchedSimpleQueue(object):
    def __init__(self):
        self._q = _real_SimpleQueue()

    def put(self, item, block=True, timeout=None):
        self._q.put(item)
        s = ACTIVE
        if s is not None:
            s.state_changed()

    put_nowait = put

    def get(self, block=True, timeout=None):
        s = ACTIVE
        if s is None or not block or s.me() is None:
            return self._q.get(block, timeout)
        box = []
        timed = timeout is not None

        def attempt():
            try:
                box.append(self._q.get_nowait())
                return True
            except _queue.Empty:
                return False

        if not s.blocking_op(attempt, "queue.get", timed=timed):
            raise _queue.Empty
        return box[0]

    def get_nowait(self):
        return self._q.get_nowait()

    def empty(self):
        return self._q.empty()

    def qsize(self):
        return self._q.qsize()


def SimpleQueue():
    if _caller_in_eliot():
        return SchedSimpleQueue()
    return _real_SimpleQueue()


class SchedCondition(_real_Condition):
    """threading.Condition whose untimed wait() by a registered thread is a scheduler switch point instead of a C-level block.

    queue.Queue / LifoQueue / threading.Event build on Condition, so code under test that switches to those stays schedulable."""

    def __init__(self, lock=None):
        if lock is None and _caller_in_eliot():
            # code under test may run (and be suspended by the scheduler) while holding the condition's lock
            lock = SchedLock(True)
        _real_Condition.__init__(self, lock)

    def wait(self, timeout=None):
        s = ACTIVE
        if s is None or getattr(_tl, "raw", False) or s.me() is None:
            return _real_Condition.wait(self, timeout)
        if not self._is_owned():
            raise RuntimeError("cannot wait on un-acquired lock")
        waiter = _thread.allocate_lock()
        waiter.acquire()
        self._waiters.append(waiter)
        saved = self._release_save()
        try:
            got = s.blocking_op(lambda: waiter.acquire(False), "condition.wait", timed=timeout is not None)
            if not got:
                try:
                    self._waiters.remove(waiter)
                except ValueError:
                    pass
            return got
        finally:
            self._acquire_restore(saved)

    def notify(self, n=1):
        _real_Condition.notify(self, n)
        s = ACTIVE
        if s is not None:
            s.state_changed()


class SchedThread(_real_Thread):
    """threading.Thread whose start()/join() cooperate with the active schedule when used by registered threads."""

    _vf_name = None
    _vf_finished = False

    def start(self):
        s = ACTIVE
        if s is not None and s.me() is not None and self._vf_name is None:
            # a thread started by code under test (e.g. ThreadedWriter's reader): register it dynamically
            self._vf_name = s.preregister_dynamic()
        _tl.raw = True  # Thread.start waits on an Event for the new thread's bootstrap: a real, bounded wait
        try:
            return _real_Thread.start(self)
        finally:
            _tl.raw = False

    def run(self):
        s = ACTIVE
        name = self._vf_name
        if s is None or name is None:
            try:
                return _real_Thread.run(self)
            finally:
                self._vf_finished = True
        s.register(name)
        try:
            _real_Thread.run(self)
        except SchedAbort:
            pass
        finally:
            self._vf_finished = True
            s.unregister(name)

    def join(self, timeout=None):
        s = ACTIVE
        if s is None or s.me() is None:
            return _real_Thread.join(self, timeout)
        # a timed join is modelled logically: its timeout expires only when nothing else can run (see Scheduler.blocking_op)
        s.blocking_op(lambda: self._vf_finished or not self.is_alive(), "join", timed=timeout is not None)
        return None


def install():
    global INSTALLED
    if INSTALLED:
        return
    if "eliot" in sys.modules:
        raise RuntimeError("vf.sched.install() must run before eliot is imported")
    threading.Lock = Lock
    threading.RLock = RLock
    threading.Thread = SchedThread
    threading.Condition = SchedCondition
    _queue.SimpleQueue = SimpleQueue
    INSTALLED = True


# --------------------------------------------------------------------------- instrumentation


def code_objects_of(files):
    files = set(files)
    seen = {}

    def add(code):
        if id(code) in seen or code.co_filename not in files:
            return
        seen[id(code)] = code
        for c in code.co_consts:
            if isinstance(c, types.CodeType):
                add(c)

    for o in gc.get_objects():
        if isinstance(o, types.FunctionType):
            add(o.__code__)
    return list(seen.values())


_instrumented = []


def _post_call_offsets(code):
    """Offsets of the instructions that directly follow a call instruction and do not start a line. CPython 3.12 looks at its
    eval breaker when a call instruction completes, so another thread may run between the call and the instruction that uses its
    result (`self.cache = tuple(self.items)`: after tuple() returned, before the store). Line starts are left out: the LINE event
    there is a switch point already."""
    import dis
    line_first = set()
    for ins in dis.get_instructions(code):
        if ins.starts_line is not None:
            line_first.add(ins.offset)
    out = set()
    prev = None
    for ins in dis.get_instructions(code):
        if prev is not None and prev.opname in ("CALL", "CALL_FUNCTION_EX", "CALL_KW") and ins.offset not in line_first:
            out.add(ins.offset)
        if ins.opname not in ("CACHE", "EXTENDED_ARG"):
            prev = ins
    return frozenset(out)


_post_call = {}  # code object -> offsets that are switch points


def instrument(modules, post_call=False):
    """Enable LINE events on every code object whose file is one of the given modules' files. With post_call=True the instruction
    after every call instruction is a switch point as well (INSTRUCTION events; all other instructions are disabled on first sight)."""
    mon = sys.monitoring
    if mon.get_tool(TOOL) is None:
        mon.use_tool_id(TOOL, "vf-sched")
        mon.register_callback(TOOL, mon.events.LINE, _on_line)
        mon.register_callback(TOOL, mon.events.INSTRUCTION, _on_instruction)
    files = [m.__file__ for m in modules]
    codes = code_objects_of(files)
    for c in codes:
        ev = mon.events.LINE
        if post_call:
            offs = _post_call_offsets(c)
            if offs:
                _post_call[c] = offs
                ev |= mon.events.INSTRUCTION
        mon.set_local_events(TOOL, c, ev)
        _instrumented.append(c)
    return len(codes)


def _on_line(code, line):
    s = ACTIVE
    if s is None:
        return
    me = s.ident_to_name.get(_thread.get_ident())
    if me is None:
        return
    s.yield_point(me, "line", code, line)


def _on_instruction(code, offset):
    offs = _post_call.get(code)
    if offs is None or offset not in offs:
        return sys.monitoring.DISABLE
    s = ACTIVE
    if s is None:
        return
    me = s.ident_to_name.get(_thread.get_ident())
    if me is None:
        return
    s.yield_point(me, "instr", code, "+%d" % offset)


# --------------------------------------------------------------------------- the scheduler


class _T(object):
    __slots__ = ("name", "prio", "events", "status", "blocked", "arrived")

    def __init__(self, name, prio):
        self.name = name
        self.prio = prio
        self.events = 0
        self.status = "runnable"
        self.blocked = False
        self.arrived = False


class Scheduler(object):
    # Number of 1 ms polls granted when every registered thread is blocked before the state is declared stuck. All threads
    # that can unblock a registered thread are registered themselves, so "everybody blocked" is a logical property of the
    # execution, not a matter of timing; the polls only cover the instant between a thread's last step and its exit.
    POLL_LIMIT = 300

    def __init__(self, plan, initial):
        """plan: {"order": [...], "changes": [[name, k], ...]}; initial: names of the threads the harness will start."""
        self.cv = _real_Condition(_real_Lock())
        self.order = list(plan.get("order", []))
        self.changes = set((n, k) for n, k in plan.get("changes", []))
        self.threads = {}
        self.ident_to_name = {}
        self.initial = list(initial)
        for n in self.initial:
            self.threads[n] = _T(n, self._prio_of(n))
        self.started = False
        self.current = None
        self.aborted = None
        self.polls = 0
        self.low = -1000
        self.trace = []  # run-length encoded [name, count]
        self.steps = 0
        self.fired = []  # (name, k, file:line)
        self.ndyn = 0
        self.last_progress = time.monotonic()
        self.waiting = {}  # thread name -> (what, object) of the blocking operation it is retrying
        self.deadlock = None
        self.idle_polls = 0  # consecutive polls without any thread making a step
        self.timeouts_fired = 0
        self.blocked_log = []  # (thread, kind of operation) each time a blocking operation could not proceed at once
        self.timed_waiters = set()  # threads inside a blocking operation that has a timeout
        self.timed_out = set()  # timed waiters whose timeout has (logically) expired

    # ---- helpers
    def _prio_of(self, name):
        if name in self.order:
            return len(self.order) - self.order.index(name)
        return 0

    def me(self):
        return self.ident_to_name.get(_thread.get_ident())

    def _pick(self):
        best = None
        for t in self.threads.values():
            if t.status == "runnable" and not t.blocked:
                if best is None or t.prio > best.prio:
                    best = t
        return best

    def _abort(self, reason):
        if self.aborted is None:
            self.aborted = reason
        self.cv.notify_all()

    def abort(self, reason):
        with self.cv:
            self._abort(reason)

    def _wait_for_token(self, name):
        while self.current != name:
            if self.aborted:
                raise SchedAbort(self.aborted)
            self.cv.wait(0.5)
        if self.aborted:
            raise SchedAbort(self.aborted)

    def _hand_over(self, me):
        """Called with cv held by the token holder `me` (or None when it is leaving): choose who runs next."""
        while True:
            if self.aborted:
                raise SchedAbort(self.aborted)
            nxt = self._pick()
            if nxt is not None:
                break
            waiting = [t for t in self.threads.values() if t.status == "runnable"]
            if not waiting:
                self.current = None
                self.cv.notify_all()
                return
            # everybody is blocked. A pending timed wait expires now (highest priority first): that is the only way on.
            expiring = [t for t in waiting if t.name in self.timed_waiters and t.name not in self.timed_out]
            if expiring:
                t = max(expiring, key=lambda x: x.prio)
                self.timed_waiters.discard(t.name)
                self.timed_out.add(t.name)
                t.blocked = False
                self.timeouts_fired += 1
                continue
            # If each one waits for a lock held by another blocked (or finished) registered thread,
            # nothing can ever change: a deadlock of the code under test, decided logically, not by a clock.
            dl = self._deadlocked(waiting)
            if dl:
                self.deadlock = dl
                self._abort("deadlock: " + dl)
                raise SchedAbort(self.aborted)
            # otherwise wait for something external (thread exit, unregistered thread) and retry
            self.polls += 1
            self.idle_polls += 1
            if self.idle_polls > self.POLL_LIMIT:
                self.deadlock = "no registered thread can make progress: " + "; ".join(
                    "%s blocked in %s" % (t.name, self.waiting.get(t.name, ("?", None))[0]) for t in waiting)
                self._abort("stuck: " + self.deadlock)
                raise SchedAbort(self.aborted)
            self.cv.wait(0.001)
            for t in waiting:
                t.blocked = False
            if me is None:
                # a leaving thread cannot poll for the others: wake them, the first to retry takes over
                pass
        self.current = nxt.name
        if nxt.name != me:
            self.cv.notify_all()
            if me is not None:
                self._wait_for_token(me)

    def _deadlocked(self, waiting):
        names = set(t.name for t in waiting)
        parts = []
        for t in waiting:
            what, obj = self.waiting.get(t.name, (None, None))
            if what != "lock" or obj is None:
                return None
            owner = obj._vf_owner
            if owner is None:
                return None
            ot = self.threads.get(owner)
            if owner not in names and not (ot is not None and ot.status == "done"):
                return None
            parts.append("%s waits for a lock held by %s" % (t.name, owner))
        return "; ".join(parts) if parts else None

    # ---- thread life cycle
    def register(self, name):
        with self.cv:
            if name not in self.threads:
                self.threads[name] = _T(name, self._prio_of(name))
            t = self.threads[name]
            t.arrived = True
            self.ident_to_name[_thread.get_ident()] = name
            if not self.started and all(self.threads[n].arrived for n in self.initial):
                self.started = True
                self.current = self._pick().name
                self.cv.notify_all()
            self._wait_for_token(name)

    def unregister(self, name):
        with self.cv:
            t = self.threads.get(name)
            if t is not None:
                t.status = "done"
            self.ident_to_name.pop(_thread.get_ident(), None)
            for x in self.threads.values():
                x.blocked = False
            if self.current == name or self.current is None:
                try:
                    self._hand_over(None)
                except SchedAbort:
                    pass

    def preregister_dynamic(self):
        with self.cv:
            self.ndyn += 1
            name = "dyn%d" % self.ndyn
            self.threads[name] = _T(name, self._prio_of(name))
            return name

    # ---- switch points
    def yield_point(self, me, kind, code=None, line=None):
        with self.cv:
            if self.aborted:
                raise SchedAbort(self.aborted)
            t = self.threads[me]
            t.events += 1
            self.steps += 1
            if kind in ("line", "instr"):
                self.idle_polls = 0
            if self.trace and self.trace[-1][0] == me:
                self.trace[-1][1] += 1
            else:
                self.trace.append([me, 1])
            if (me, t.events) in self.changes:
                self.low -= 1
                t.prio = self.low
                self.fired.append((me, t.events, "%s:%s" % (code.co_filename.rsplit("/", 1)[-1], line) if code is not None else kind))
            self._hand_over(me)

    def blocking_op(self, attempt, what, obj=None, timed=False):
        """Retry `attempt` at switch points until it succeeds. With timed=True the operation has a timeout in the code under test:
        it is modelled as expiring only when no registered thread can make progress otherwise (timeouts are 'long'); returns False then."""
        me = self.me()
        while True:
            self.yield_point(me, what)
            if attempt():
                self.waiting.pop(me, None)
                self.timed_out.discard(me)
                return True
            if timed and me in self.timed_out:
                self.timed_out.discard(me)
                self.waiting.pop(me, None)
                return False
            if timed:
                self.timed_waiters.add(me)
            with self.cv:
                self.threads[me].blocked = True
                self.waiting[me] = (what, obj)
                if len(self.blocked_log) < 10000:
                    self.blocked_log.append((me, what))

    def state_changed(self):
        with self.cv:
            for t in self.threads.values():
                t.blocked = False

    # ---- results
    def stats(self):
        return {
            "events": {n: t.events for n, t in self.threads.items()},
            "steps": self.steps,
            "trace": [tuple(x) for x in self.trace],
            "fired": list(self.fired),
            "aborted": self.aborted,
            "deadlock": self.deadlock,
            "blocked": list(self.blocked_log),
            "timeouts_fired": self.timeouts_fired,
            "polls": self.polls,
            "dynamic_threads": self.ndyn,
        }


class WorkerThread(SchedThread):
    """Harness thread registered with the scheduler under a fixed name."""

    def __init__(self, sched, name, fn):
        _real_Thread.__init__(self, target=fn, name=name, daemon=True)
        self._vf_name = name
        self.vf_error = None
        self._sched = sched
        self._fn = fn

    def run(self):
        s = self._sched
        try:
            s.register(self._vf_name)
        except SchedAbort:
            self._vf_finished = True
            return
        try:
            self._fn()
        except SchedAbort:
            pass
        except BaseException as e:
            self.vf_error = e
        finally:
            self._vf_finished = True
            s.unregister(self._vf_name)


def run_schedule(plan, workers, timeout=60.0):
    """workers: {name: callable}. Runs them under `plan`. Returns (stats, errors dict name -> exception)."""
    global ACTIVE, HUNG
    if HUNG:
        st = Scheduler(plan, list(workers)).stats()
        st["aborted"] = "skipped: an earlier schedule of this case hung outside the scheduler's control"
        return st, {}
    s = Scheduler(plan, list(workers))
    ACTIVE = s
    ths = [WorkerThread(s, n, f) for n, f in workers.items()]
    try:
        for t in ths:
            _real_Thread.start(t)
        deadline = time.monotonic() + timeout
        for t in ths:
            left = deadline - time.monotonic()
            _real_Thread.join(t, max(0.01, left))
            if t.is_alive():
                s.abort("wall-clock watchdog (%ss)" % timeout)
                HUNG = True
        for t in ths:
            _real_Thread.join(t, 5.0)
        # dynamic threads started by the code under test
        for t in threading.enumerate():
            if isinstance(t, SchedThread) and t._vf_name and t._vf_name.startswith("dyn") and t.is_alive():
                _real_Thread.join(t, 2.0)
                if t.is_alive():
                    s.abort("dynamic thread %s did not finish" % t._vf_name)
                    _real_Thread.join(t, 2.0)
    finally:
        ACTIVE = None
    st = s.stats()
    errs = {t._vf_name: t.vf_error for t in ths if t.vf_error is not None}
    return st, errs


def trace_hash(stats):
    import hashlib
    return hashlib.sha1(repr(stats["trace"]).encode()).hexdigest()[:16]


def one_preemption_plans(order, events):
    """All schedules with exactly one change point, for the given priority order and baseline event counts."""
    for name in order:
        for k in range(1, events.get(name, 0) + 1):
            yield {"order": list(order), "changes": [[name, k]]}


def sampled_plans(rng, names, events, n, depth_choices=(2, 3)):
    for _ in range(n):
        order = list(names)
        rng.shuffle(order)
        d = rng.choice(depth_choices)
        changes = []
        for _ in range(d):
            nm = rng.choice(order)
            hi = max(1, int(events.get(nm, 1) * 1.3))
            changes.append([nm, rng.randint(1, hi)])
        yield {"order": order, "changes": changes}


def wait_until(pred):
    """Scheduler-friendly wait for a condition established by another registered thread."""
    s = ACTIVE
    if s is None or s.me() is None:
        while not pred():
            time.sleep(0.0005)
        return
    s.blocking_op(pred, "wait")


def notify():
    s = ACTIVE
    if s is not None:
        s.state_changed()


def sleep():
    """A 'long' sleep in logical time: returns only when no other registered thread can make progress (and all timed waits of
    higher-priority threads have expired)."""
    s = ACTIVE
    if s is None or s.me() is None:
        return
    s.blocking_op(lambda: False, "sleep", timed=True)
