"""Logging while the interpreter shuts down.

A fresh interpreter imports the library under test, logs a little in the ordinary way, and leaves behind objects whose __del__ logs
through the public API: kept alive by a module global, by a reference cycle, by a function attribute.  CPython runs those
finalizers while it tears the interpreter down (sys.modules emptied, sys.meta_path None, module globals going away).  The probe
records, with raw os.write calls that need nothing from the dying interpreter, whether each logging call returned, and what
reached the destination.

Only the success paths of the API are driven here (messages, actions that succeed, rich field values): eliot's *error* paths import
modules lazily and cannot work at that point in the unchanged library either; that is a limitation of any Python code run from
a finalizer during shutdown and is not judged.
"""
import json
import os
import subprocess
import sys
import tempfile

CHILD = r'''
import os, sys
sys.path.insert(0, sys.argv[1])
import eliot
from eliot import FileDestination
from pathlib import Path
import datetime

spec = __import__("json").loads(sys.argv[2])
log_path = sys.argv[3]

if spec["dest"] == "function":
    # a plain function of the main module writing to a raw descriptor (nothing it needs goes away during shutdown)
    log_fd = os.open(log_path, os.O_WRONLY | os.O_CREAT | os.O_APPEND)
    def destination(message, _write=os.write, _fd=log_fd, _dumps=__import__("json").dumps):
        _write(_fd, (_dumps({k: str(v) for k, v in message.items()}) + "\n").encode("utf-8"))
    eliot.add_destinations(destination)
elif spec["dest"] == "stdout_text":
    eliot.add_destinations(FileDestination(file=sys.stdout))
elif spec["dest"] == "stdout_binary":
    eliot.add_destinations(FileDestination(file=sys.stdout.buffer))
elif spec["dest"] == "to_file":
    eliot.to_file(sys.stdout)

VALUES = {
    "text": "plain text",
    "path": Path("/var/spool/demo/queue.db"),
    "set": {7},
    "complex": 3 + 4j,
    "date": datetime.date(2024, 2, 29),
    "time": datetime.time(1, 2, 3),
    "datetime": datetime.datetime(2024, 2, 29, 1, 2, 3, 456),
    "nested": {"p": [Path("a/b"), {"q": {5}}]},
    "int": 2 ** 60,
}


class Resource(object):
    """Something that logs when it is released."""

    def __init__(self, name, how, value):
        self.name = name
        self.how = how
        self.value = value

    def __del__(self, _write=os.write):
        try:
            if self.how == "log_message":
                eliot.log_message("resource:released", name=self.name, value=self.value)
            elif self.how == "action":
                with eliot.start_action(action_type="resource:cleanup", name=self.name, value=self.value) as a:
                    a.log("resource:step", value=self.value)
                    a.add_success_fields(result=self.value)
            elif self.how == "message_log":
                eliot.Message.log(message_type="resource:released", name=self.name, value=self.value)
            elif self.how == "task":
                t = eliot.start_task(action_type="resource:cleanup", name=self.name, value=self.value)
                t.finish()
        except BaseException as e:
            _write(2, ("DEL-RAISED %s %s: %s\n" % (self.name, type(e).__name__, e)).encode())
            return
        _write(2, ("DEL-OK %s\n" % (self.name,)).encode())


eliot.log_message("app:start", value=VALUES[spec["value"]])
with eliot.start_action(action_type="app:work"):
    eliot.log_message("app:working")

how = spec["how"]
value = VALUES[spec["value"]]
plain = Resource("plain-global", how, value)
cyclic = Resource("in-a-cycle", how, value)
cyclic.me = cyclic


def helper():
    pass


helper.resource = Resource("function-attribute", how, value)
os.write(2, b"MAIN-DONE\n")
'''

EXPECTED_JSON = {
    "text": "plain text",
    "path": "/var/spool/demo/queue.db",
    "set": [7],
    "complex": {"real": 3.0, "imag": 4.0},
    "date": "2024-02-29",
    "time": "01:02:03",
    "datetime": "2024-02-29T01:02:03.000456",
    "nested": {"p": ["a/b", {"q": [5]}]},
    "int": 2 ** 60,
}
# (no ordinary opened file: at exit CPython may finalize - close - such a file before it finalizes the objects that log to it)
DESTS = ["stdout_text", "stdout_binary", "to_file", "function"]
HOWS = ["log_message", "action", "message_log", "task"]
PER_RESOURCE = {"log_message": 1, "action": 3, "message_log": 1, "task": 2}
NAMES = ["plain-global", "in-a-cycle", "function-attribute"]


def run_probe(repo, spec, timeout=120):
    """-> dict(returncode, stderr lines, lines of the log (bytes), expected message count); raises subprocess.TimeoutExpired"""
    d = tempfile.mkdtemp(prefix="vf-shutdown-")
    try:
        script = os.path.join(d, "child.py")
        with open(script, "w") as f:
            f.write(CHILD)
        log = os.path.join(d, "log.txt")
        env = {k: v for k, v in os.environ.items() if k not in ("PYTHONPATH", "PYTHONUNBUFFERED")}
        proc = subprocess.run([sys.executable, script, repo, json.dumps(spec), log], env=env, stdout=subprocess.PIPE,
                              stderr=subprocess.PIPE, timeout=timeout, cwd=d)
        data = b""
        if spec["dest"].startswith(("stdout", "to_file")):
            data = proc.stdout
        elif os.path.exists(log):
            with open(log, "rb") as f:
                data = f.read()
        return {"returncode": proc.returncode, "stderr": proc.stderr.decode("utf-8", "replace").splitlines(), "log": data,
                "expected_messages": 4 + 3 * PER_RESOURCE[spec["how"]]}
    finally:
        for n in os.listdir(d):
            os.unlink(os.path.join(d, n))
        os.rmdir(d)


def judge_no_raise(out):
    """C07's part: every logging call made from a finalizer returned normally."""
    problems = []
    if "MAIN-DONE" not in out["stderr"]:
        return None, "the probe's main module did not finish: %r" % (out["stderr"][-3:],)
    for name in NAMES:
        raised = [l for l in out["stderr"] if l.startswith("DEL-RAISED " + name)]
        if raised:
            problems.append("a logging call made from %s.__del__ while the interpreter was shutting down raised into the finalizer: %s"
                            % (name, raised[0][len("DEL-RAISED "):]))
        elif ("DEL-OK " + name) not in out["stderr"]:
            # (CPython finalizes what the main module leaves behind when it clears that module at exit; that a registered destination
            # function refers to the main module's globals does not change this - unless the library parks a reference to its
            # destinations somewhere that outlives module teardown)
            problems.append("the object %s that the application left behind was never finalized at interpreter exit (its __del__, which logs, did not run) "
                            "once a destination was registered" % name)
    return problems, None


def judge_lines(out, spec):
    """C10's part: one valid, faithful line per message offered, also for those offered during shutdown."""
    problems = []
    if "MAIN-DONE" not in out["stderr"]:
        return None, "the probe's main module did not finish: %r" % (out["stderr"][-3:],)
    if spec["dest"] == "function":
        return [], None
    for name in NAMES:
        if not any(l.startswith(("DEL-OK " + name, "DEL-RAISED " + name)) for l in out["stderr"]):
            return None, "finalizer of %s never ran" % name
    data = out["log"]
    if data and not data.endswith(b"\n"):
        problems.append("the log does not end with a newline: %r" % data[-60:])
    msgs = []
    for line in data.split(b"\n")[:-1] if data else []:
        try:
            msgs.append(json.loads(line.decode("utf-8")))
        except Exception as e:
            problems.append("a line of the log is not a UTF-8 JSON object: %r (%s)" % (line[:80], e))
    if spec["dest"] == "function":
        return problems, None  # (that destination's rendering is its own; C07's part judges it)
    want = EXPECTED_JSON[spec["value"]]
    got_names = {}
    for m in msgs:
        if not isinstance(m, dict):
            problems.append("a line is not an object: %r" % (m,))
            continue
        if "name" in m:
            got_names[m["name"]] = got_names.get(m["name"], 0) + 1
        for key in ("value", "result"):
            if key in m and m[key] != want:
                problems.append("field %s of a %s message decodes to %r, documented encoding of the logged value is %r"
                                % (key, m.get("message_type") or m.get("action_type"), m[key], want))
    # messages carrying name=...: per resource 1 (message), or the start message (action / task); the others are counted in total
    if len(msgs) != out["expected_messages"]:
        types = [m.get("message_type") or "%s/%s" % (m.get("action_type"), m.get("action_status")) for m in msgs if isinstance(m, dict)]
        problems.append("%d messages were offered to the file destination (%d of them from finalizers run during interpreter shutdown), "
                        "the file holds %d lines: %s" % (out["expected_messages"], out["expected_messages"] - 4, len(msgs), types))
    return problems, None
