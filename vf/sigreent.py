"""
Signal-handler re-entrancy explorer: a Python signal handler that itself logs, delivered at a chosen point INSIDE a logging call.

CPython runs Python-level signal handlers in the main thread when the interpreter looks at its eval breaker: when a call instruction
completes and at function entry (and at backward jumps). So a handler can run in the middle of eliot's own code, e.g. after
`self._last_child.next_sibling()` returned and before its result is stored. This module enumerates exactly those points:
sys.monitoring INSTRUCTION events on the eliot modules, restricted to the instructions that directly follow a call instruction, and
PY_START events (function entry). At the k-th such event in the main thread the monitoring callback calls signal.raise_signal();
the pending handler then runs at the eval-breaker check that follows that C call, i.e. while the monitored eliot frame is suspended
exactly at that instruction boundary - the state a real signal arriving there would find. Every interleaving produced is one the real
program can have.

run_once(program, k, handler_kind) is meant to be executed in a freshly forked child (pristine eliot state, the forking thread is the
child's main thread).
"""

import signal
import sys
import threading

TOOL = 3


def _all_post_call_offsets(code):
    import dis
    out = set()
    prev = None
    for ins in dis.get_instructions(code):
        if prev is not None and prev.opname in ("CALL", "CALL_FUNCTION_EX", "CALL_KW"):
            out.add(ins.offset)
        if ins.opname not in ("CACHE", "EXTENDED_ARG"):
            prev = ins
    return frozenset(out)


class Injector(object):
    def __init__(self, modules, fire_at, on_fire):
        from vf.sched import code_objects_of
        self.fire_at = fire_at
        self.on_fire = on_fire
        self.count = 0
        self.in_handler = False
        self.armed = False
        self.fired = None
        self.main = threading.get_ident()
        self.offsets = {}
        mon = sys.monitoring
        mon.use_tool_id(TOOL, "vf-sigreent")
        mon.register_callback(TOOL, mon.events.INSTRUCTION, self._on_instruction)
        mon.register_callback(TOOL, mon.events.PY_START, self._on_start)
        self.codes = code_objects_of([m.__file__ for m in modules])
        for c in self.codes:
            self.offsets[c] = _all_post_call_offsets(c)
            mon.set_local_events(TOOL, c, mon.events.INSTRUCTION | mon.events.PY_START)

    def _point(self, code, where):
        if not self.armed or self.in_handler or threading.get_ident() != self.main:
            return
        self.count += 1
        if self.count == self.fire_at:
            self.fired = "%s:%s:%s" % (code.co_filename.rsplit("/", 1)[-1], code.co_name, where)
            self.on_fire()

    def _on_instruction(self, code, offset):
        offs = self.offsets.get(code)
        if offs is None or offset not in offs:
            return sys.monitoring.DISABLE
        self._point(code, "+%d" % offset)

    def _on_start(self, code, offset):
        self._point(code, "entry")

    def close(self):
        mon = sys.monitoring
        for c in self.codes:
            mon.set_local_events(TOOL, c, 0)
        mon.free_tool_id(TOOL)


class Watchdog(object):
    """Decides 'the main thread makes no progress': its innermost frame and instruction stay the same for `limit` seconds (sampled
    every 0.25 s). The only thread of the case that does anything is the main thread, so a thread that stays on one instruction for
    that long is blocked for good (a lock it already holds, typically). The position is recorded and the main thread interrupted
    (KeyboardInterrupt out of the blocking acquire), so that the case ends and reports it."""

    def __init__(self, limit=8.0):
        self.limit = limit
        self.main = threading.get_ident()
        self.stuck = None
        self.done = threading.Event()
        # (a real signal: only that wakes a thread blocked in a lock acquire)
        self._interrupt = lambda: signal.pthread_kill(self.main, signal.SIGINT)
        self.t = threading.Thread(target=self._run, daemon=True)

    def _where(self):
        f = sys._current_frames().get(self.main)
        if f is None:
            return None
        g = f
        while g is not None and "/eliot/" not in g.f_code.co_filename:  # (the nearest frame of the library, for the report)
            g = g.f_back
        g = g or f
        return (id(f), f.f_lasti, "%s:%d in %s" % (g.f_code.co_filename.rsplit("/", 1)[-1], g.f_lineno, g.f_code.co_name))

    def _run(self):
        # counted in samples, not in wall-clock time: between two samples this thread sleeps (and gives up the GIL), so the main thread
        # has had a chance to run each time - on a starved machine fewer samples are taken, and the verdict takes longer, not less
        need = int(self.limit / 0.25)
        last, same = None, 0
        while not self.done.wait(0.25):
            w = self._where()
            if w is None:
                return
            if last is None or w[:2] != last[:2]:
                last, same = w, 0
            else:
                same += 1
                if same >= need:
                    self.stuck = w[2]
                    self._interrupt()
                    return

    def __enter__(self):
        signal.signal(signal.SIGINT, signal.default_int_handler)
        self.t.start()
        return self

    def __exit__(self, *a):
        self.done.set()


def run_once(program, k, handler_kind, fanout=None):
    """program: list of ops (see _exec); k: index of the switch point at which the signal is raised (0 = never);
    handler_kind: 'msg' | 'action' | 'serialize' | 'typed'. Returns what a recording destination saw, which calls returned, where the
    signal landed, and how many switch points the program passed (with k=0: the enumeration bound).
    fanout = {"before": bool, "fail_every": n}: two more destinations are registered around the recording one - one that raises
    DestFault on every n-th call (before or after it) and a second recorder behind both; their tapes come back as "tape2" / "faulty"."""
    import eliot
    from eliot import _action, _message, _output, _traceback, _errors
    from eliot import add_destinations, current_action, log_message, start_action, write_traceback, Message, MessageType, Field

    if threading.current_thread() is not threading.main_thread():
        return {"skip": "not the main thread of its process"}
    tape = []
    tape2, faulty = [], {"calls": 0, "failed": []}
    if fanout:
        from vf import excs

        def bad(m):
            faulty["calls"] += 1
            if faulty["calls"] % fanout["fail_every"] == 0 and m.get("message_type") != "eliot:destination_failure":
                faulty["failed"].append(m.get("nid", m.get("message_type")))
                raise excs.DestFault("fan-out destination fails on call %d" % faulty["calls"])
        first = (lambda m: tape.append(dict(m)))
        second = (lambda m: tape2.append(dict(m)))
        add_destinations(*([bad, first, second] if fanout["before"] else [first, bad, second]))
    else:
        add_destinations(lambda m: tape.append(dict(m)))
    returned = []     # nids of logging calls that returned (main program and handler)
    reserved = []     # serialized task ids handed out (each reserves a position that this program never continues)
    errors = []
    state = {"n": 1000, "handler_runs": 0, "handler_context": None}
    TYPED = MessageType("sig:typed", [Field.for_types("nid", [int], "")], "")

    def handler(signum, frame):
        inj.in_handler = True
        try:
            state["handler_runs"] += 1
            cur = current_action()
            state["handler_context"] = None if cur is None else "action"
            state["n"] += 1
            nid = state["n"]
            try:
                if handler_kind == "msg":
                    log_message(message_type="sig:note", nid=nid)
                    returned.append(nid)
                elif handler_kind == "typed":
                    TYPED.log(nid=nid)
                    returned.append(nid)
                elif handler_kind == "action":
                    with start_action(action_type="sig:act", nid=nid):
                        returned.append(nid)  # (start message)
                        state["n"] += 1
                        log_message(message_type="sig:inner", nid=state["n"])
                        returned.append(state["n"])
                    returned.append(-nid)  # (end message)
                elif handler_kind == "serialize":
                    if cur is not None:
                        reserved.append(cur.serialize_task_id().decode("ascii"))
                    log_message(message_type="sig:note", nid=nid)
                    returned.append(nid)
            except BaseException as e:
                errors.append("the signal handler's logging call raised %r" % (e,))
        finally:
            inj.in_handler = False

    signal.signal(signal.SIGUSR1, handler)
    inj = Injector([_action, _output, _message, _traceback, _errors], k, lambda: signal.raise_signal(signal.SIGUSR1))

    def _exec(ops):
        for op in ops:
            kind = op[0]
            if kind == "msg":
                log_message(message_type="app:m", nid=op[1])
                returned.append(op[1])
            elif kind == "oldmsg":
                Message.log(message_type="app:old", nid=op[1])
                returned.append(op[1])
            elif kind == "ser":
                reserved.append(current_action().serialize_task_id().decode("ascii"))
            elif kind == "tb":
                try:
                    raise ValueError("tb %s" % op[1])
                except ValueError:
                    write_traceback()
            elif kind == "act":
                _, nid, fail, body = op
                try:
                    with start_action(action_type="app:a", nid=nid) as a:
                        returned.append(nid)
                        _exec(body)
                        if not fail:
                            a.add_success_fields(done=nid)
                        else:
                            raise KeyError("fail %s" % nid)
                except KeyError:
                    pass
                returned.append(-nid)

    inj.armed = True
    wd = Watchdog()
    try:
        with wd:
            _exec(program)
    except BaseException as e:
        errors.append("the program's logging call raised %r" % (e,))
    finally:
        inj.armed = False
        inj.close()
    if wd.stuck:
        errors.insert(0, "a logging call never returned: the only running thread stayed at %s for %.0f s (blocked on something it holds itself)" % (wd.stuck, wd.limit))
    return {"tape2": tape2, "faulty": faulty, "tape": tape, "returned": returned, "reserved": reserved, "errors": errors, "points": inj.count, "fired": inj.fired,
            "handler_runs": state["handler_runs"], "handler_context": state["handler_context"]}


def gen_program(rng):
    """A small program: 1-2 top-level actions, nested once or twice, messages, an id reservation, a traceback, a failure."""
    nid = [0]

    def n():
        nid[0] += 1
        return nid[0]

    def body(depth):
        ops = []
        for _ in range(rng.randint(1, 3)):
            r = rng.random()
            if r < 0.45:
                ops.append(("msg", n()) if rng.random() < 0.8 else ("oldmsg", n()))
            elif r < 0.6 and depth < 2:
                ops.append(("act", n(), rng.random() < 0.3, body(depth + 1)))
            elif r < 0.75:
                ops.append(("ser",))
            elif r < 0.85:
                ops.append(("tb", n()))
            else:
                ops.append(("msg", n()))
        return ops

    prog = [("act", n(), rng.random() < 0.25, body(1))]
    if rng.random() < 0.5:
        prog.append(("msg", n()))
    return prog


def judge(data, problems):
    """Clauses of C02 that no interleaving may break: well-formed, unique (task_uuid, task_level), positions inside every action exactly
    1..n with the start at 1 and the end at n; plus: every logging call that returned has its message on the tape exactly once and no
    call raised. The order clause is NOT judged here (a message logged by the handler between the allocation of the interrupted
    message's position and its delivery is delivered first; see DESIGN 10.2 F27 for the same effect with serializers that log)."""
    from vf import oracles
    for e in data["errors"]:
        problems.append(e)
    tape = data["tape"]
    seen = {}
    seen_reserved = set()
    per = {}
    for i, m in enumerate(tape):
        probs = oracles.check_wellformed(m)
        if probs:
            problems.append("message %d malformed: %s" % (i, "; ".join(probs)))
            continue
        key = (m["task_uuid"], tuple(m["task_level"]))
        if key in seen:
            problems.append("two messages share task_uuid %s task_level %s: %r and %r" % (
                key[0][:8], list(key[1]), _brief(tape[seen[key]]), _brief(m)))
        seen[key] = i
        lvl = key[1]
        for d in range(len(lvl)):
            per.setdefault((key[0], lvl[:d]), set()).add(lvl[d])
        if "action_type" in m:
            per.setdefault(("status", key[0], lvl[:-1]), {})[m["action_status"]] = lvl[-1]
    for rid in data.get("reserved", ()):
        uuid, _, lv = rid.partition("@")
        lvl = tuple(int(x) for x in lv.strip("/").split("/"))
        key = (uuid, lvl)
        if key in seen or key in seen_reserved:
            problems.append("a serialized task id was given the position task_level %s of %s, which is also used by %s" % (
                list(lvl), uuid[:8], _brief(tape[seen[key]]) if key in seen else "another serialized id"))
        seen_reserved.add(key)
        for d in range(len(lvl)):
            per.setdefault((uuid, lvl[:d]), set()).add(lvl[d])
    for key, ks in per.items():
        if key[0] == "status":
            continue
        ks = sorted(ks)
        if ks != list(range(1, ks[-1] + 1)):
            problems.append("positions inside %s%s are %s, not 1..%d" % (key[0][:8], list(key[1]), ks, ks[-1]))
        st = per.get(("status", key[0], key[1]), {})
        if "started" in st and st["started"] != 1:
            problems.append("start message of %s%s is at position %d" % (key[0][:8], list(key[1]), st["started"]))
        for s in ("succeeded", "failed"):
            if s in st and st[s] != ks[-1]:
                problems.append("end message of %s%s is at position %d but positions go up to %d" % (key[0][:8], list(key[1]), st[s], ks[-1]))
    # completeness by nid: start/plain messages carry nid; an action's end is identified by its start's task position
    nids = {}
    for m in tape:
        if "nid" in m and m.get("action_status", "started") == "started":
            nids[m["nid"]] = nids.get(m["nid"], 0) + 1
    for r in data["returned"]:
        if r > 0 and nids.get(r, 0) != 1:
            problems.append("the logging call for node %d returned but its message is on the accepting destination's tape %d times" % (r, nids.get(r, 0)))


def _brief(m):
    return {k: m.get(k) for k in ("message_type", "action_type", "action_status", "nid") if k in m}


def run_handover(nprebuf, nafter, k, with_globals=False):
    """Start-up hand-over with a logging signal handler: `nprebuf` messages are logged before any destination exists, then the first
    add_destinations() call is made and `nafter` more messages are logged; the handler (which logs one message) is delivered at
    switch point k of all that (0 = never). Returns the destination's tape and what returned."""
    from eliot import _action, _message, _output
    from eliot import add_destinations, add_global_fields, log_message

    if threading.current_thread() is not threading.main_thread():
        return {"skip": "not the main thread of its process"}
    tape = []
    returned = []
    errors = []
    state = {"handler_runs": 0}

    def handler(signum, frame):
        inj.in_handler = True
        try:
            state["handler_runs"] += 1
            try:
                log_message(message_type="sig:note", n=1000)
                returned.append(1000)
            except BaseException as e:
                errors.append("the signal handler's logging call raised %r" % (e,))
        finally:
            inj.in_handler = False

    signal.signal(signal.SIGUSR1, handler)
    inj = Injector([_action, _output, _message], k, lambda: signal.raise_signal(signal.SIGUSR1))
    inj.armed = True
    wd = Watchdog()
    try:
        with wd:
            if with_globals:
                add_global_fields(g=1)
            for i in range(nprebuf):
                log_message(message_type="pre", n=i)
                returned.append(i)
            add_destinations(lambda m: tape.append(dict(m)))
            returned.append("add")
            for i in range(nafter):
                log_message(message_type="post", n=100 + i)
                returned.append(100 + i)
    except BaseException as e:
        errors.append("the program's call raised %r" % (e,))
    finally:
        inj.armed = False
        inj.close()
    if wd.stuck:
        errors.insert(0, "a logging call made by the signal handler never returned: the only running thread stayed at %s for %.0f s (blocked on something it holds itself)" % (wd.stuck, wd.limit))
    return {"tape": [(m.get("message_type"), m.get("n"), m.get("g")) for m in tape], "returned": returned, "errors": errors, "points": inj.count,
            "fired": inj.fired, "handler_runs": state["handler_runs"], "stuck": wd.stuck}


def judge_handover(data, nprebuf, nafter, with_globals, problems):
    """Every message whose logging call returned is delivered to the destination of the first add_destinations exactly once; buffered
    messages keep their order among themselves and precede the ones logged after the call; no call raises. Where the handler's own
    message comes out relative to the others is not judged (the same thread logging in the middle of the replay is not held back by
    anything: DESIGN 10.2, F26)."""
    for e in data["errors"]:
        problems.append(e)
    tape = [tuple(x) for x in data["tape"]]
    ns = [x[1] for x in tape]
    for r in data["returned"]:
        if r == "add":
            continue
        if ns.count(r) != 1:
            problems.append("the logging call for message %r returned, but the destination of the first add_destinations call received it %d times (tape %s)" % (r, ns.count(r), ns))
    main = [n for n in ns if n != 1000]
    want = [r for r in data["returned"] if r not in ("add", 1000)]
    if main != want and not problems:
        problems.append("messages arrive as %s, logged as %s" % (main, want))
    if with_globals and any(x[2] != 1 for x in tape if x[1] != 1000 or True):
        problems.append("a delivered message lacks the global field set before anything was logged: %s" % (tape,))


def judge_fanout(data, problems):
    """C08 under same-thread re-entry: both accepting destinations are offered every message exactly once (the same multiset; the order
    of a nested message relative to the one being delivered legitimately differs between them), every failed delivery of the faulty
    destination is reported exactly once to each, and no call raises."""
    for e in data["errors"]:
        problems.append(e)

    def key(m):
        return (m["task_uuid"], tuple(m["task_level"]))
    a, b = [key(m) for m in data["tape"]], [key(m) for m in data["tape2"]]
    for name, t in (("first", a), ("second", b)):
        dup = sorted(set(x for x in t if t.count(x) > 1))
        if dup:
            problems.append("the %s accepting destination was offered a message more than once: %s" % (name, dup[:3]))
    if sorted(a) != sorted(b):
        only_a = [x for x in a if x not in b]
        only_b = [x for x in b if x not in a]
        problems.append("the two accepting destinations were not offered the same messages: only the first %s, only the second %s" % (only_a[:3], only_b[:3]))
    reports = [m for m in data["tape"] if m.get("message_type") == "eliot:destination_failure"]
    if len(reports) != len(data["faulty"]["failed"]):
        problems.append("the faulty destination failed on %d deliveries, %d eliot:destination_failure reports reached the accepting destination" % (
            len(data["faulty"]["failed"]), len(reports)))
