"""Event tape: recording destinations, recording file objects, harness events."""

import copy
import _thread


class Tape(object):
    """Totally ordered record of what the harness and its destinations observed."""

    def __init__(self):
        self._lock = _thread.allocate_lock()  # real lock, never the scheduler-aware replacement
        self.entries = []

    def add(self, kind, **data):
        with self._lock:
            data["k"] = kind
            data["seq"] = len(self.entries)
            self.entries.append(data)
            return data["seq"]

    def msgs(self, dest=None):
        return [e["m"] for e in self.entries if e["k"] == "msg" and (dest is None or e["dest"] == dest)]

    def events(self, kind):
        return [e for e in self.entries if e["k"] == kind]


class Recorder(object):
    """A healthy destination: records a private copy of every dict it is offered."""

    def __init__(self, tape, name="rec", deep=True):
        self.tape = tape
        self.name = name
        self.deep = deep

    def __call__(self, message):
        if self.deep:
            try:
                m = copy.deepcopy(message)
            except BaseException:
                m = dict(message)
        else:
            m = dict(message)
        self.tape.add("msg", dest=self.name, m=m)


class MaskedDestination(object):
    """Destination that records the offer, then raises on the calls selected by `mask`.

    mask: set of call indexes (0-based) or a callable index -> bool.
    """

    def __init__(self, tape, name, mask, exc_factory, deep=False):
        self.tape = tape
        self.name = name
        self.mask = mask
        self.exc_factory = exc_factory
        self.calls = 0
        self.failed = []
        self.deep = deep

    def __call__(self, message):
        i = self.calls
        self.calls += 1
        fail = self.mask(i) if callable(self.mask) else (i in self.mask)
        m = copy.deepcopy(message) if self.deep else dict(message)
        self.tape.add("msg", dest=self.name, m=m, call=i, failed=bool(fail))
        if fail:
            exc = self.exc_factory(i)
            self.failed.append((i, exc))
            raise exc


class ClosedFileDestination(MaskedDestination):
    """A real eliot FileDestination whose file has been closed under it (log rotation that forgot to unregister the old
    destination): every offer is recorded, then fails the way the closed file makes it fail. Exposes .file like the real thing."""

    def __init__(self, tape, name):
        import io
        from eliot import FileDestination
        MaskedDestination.__init__(self, tape, name, (lambda i: True), None)
        self.file = io.BytesIO()
        self._real = FileDestination(file=self.file)
        self.file.close()

    def __call__(self, message):
        i = self.calls
        self.calls += 1
        self.tape.add("msg", dest=self.name, m=dict(message), call=i, failed=True)
        try:
            self._real(message)
        except Exception as exc:
            self.failed.append((i, exc))
            raise
        raise AssertionError("writing to a closed file did not fail")


class RecordingFile(object):
    """File-like object recording write()/flush() calls. mode 'b' accepts bytes only, 't' text only."""

    def __init__(self, mode):
        self.mode = mode
        self.ops = []

    def write(self, data):
        if self.mode == "b":
            if not isinstance(data, (bytes, bytearray, memoryview)):
                raise TypeError("a bytes-like object is required, not %r" % type(data).__name__)
        else:
            if not isinstance(data, str):
                raise TypeError("write() argument must be str, not %s" % type(data).__name__)
        if isinstance(data, (bytearray, memoryview)):
            data = bytes(data)  # what the file holds is the content at the time of the call
        self.ops.append(("write", data))
        return len(data)

    def flush(self):
        self.ops.append(("flush", None))
