"""
Minimal stand-ins for the two Twisted facilities eliot.logwriter relies on (Twisted is not installed here):

  twisted.application.service.Service      startService()/stopService() toggle `running`
  twisted.internet.threads.deferToThreadPool(reactor, pool, f, *a, **kw)
                                           runs f on a helper thread and returns a completion handle

Only installed inside the C19 check process, before eliot.logwriter is imported.
"""

import sys
import threading
import types


class Service(object):
    running = 0
    name = None

    def startService(self):
        self.running = 1

    def stopService(self):
        self.running = 0


class Completion(object):
    """What deferToThreadPool returns here: completes when the helper thread has run the callable."""

    def __init__(self, f, a, kw):
        self.result = None
        self.error = None
        self.finished = False

        def run():
            try:
                self.result = f(*a, **kw)
            except BaseException as e:  # pragma: no cover
                self.error = e
            finally:
                self.finished = True

        self.thread = threading.Thread(target=run)  # the scheduler-aware subclass when vf.sched is installed
        self.thread.start()

    def wait(self):
        self.thread.join()
        return self.result


def deferToThreadPool(reactor, threadpool, f, *args, **kwargs):
    return Completion(f, args, kwargs)


class Reactor(object):
    def getThreadPool(self):
        return "stub-threadpool"


def install():
    if "twisted" in sys.modules:
        return
    tw = types.ModuleType("twisted")
    app = types.ModuleType("twisted.application")
    svc = types.ModuleType("twisted.application.service")
    inet = types.ModuleType("twisted.internet")
    thr = types.ModuleType("twisted.internet.threads")
    svc.Service = Service
    thr.deferToThreadPool = deferToThreadPool
    tw.application = app
    tw.internet = inet
    app.service = svc
    inet.threads = thr
    for m in (tw, app, svc, inet, thr):
        m.__vf_stub__ = True
        sys.modules[m.__name__] = m
